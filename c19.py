#!/usr/bin/env python3
"""C19: every message feature can be selected on its own, with or without std.

The configuration space is finite and enumerated completely:
  {} , each msgNNNN feature alone, all_msgs  -- each without std (thorough: also with serde).
Step 1  cargo check --lib of /repo for every configuration (no copy of the repository is made;
        per-worker CARGO_TARGET_DIR under harness/target-feat).
Step 2  a tiny driver binary is built against the feature selection and decodes a fixed set of
        frames; the all_msgs build of the same driver is the reference: frames of the selected
        type must decode identically, every other number must be MsgNotSupported.
Step 3  no_std probe: a #![no_std] staticlib with its own panic handler linked against the
        selection; any std in the dependency graph collides with it.
quick: steps 2 and 3 for every configuration (step 3 is the no-std build of each configuration);
thorough: additionally step 1 for every configuration with and without serde.
"""
import concurrent.futures, hashlib, json, os, re, shutil, subprocess, sys, time

EDGE = [1071, 1133, 1074, 1136, 1075, 1137, 1085, 1087]           # ends of the four cfg(any(..)) lists
FAMILY = [1001, 1004, 1005, 1007, 1012, 1013, 1019, 1020, 1029, 1033, 1042, 1057, 1059, 1065, 1230, 1300, 1302]


def crc24q(data):
    crc = 0
    for b in data:
        crc ^= b << 16
        for _ in range(8):
            crc <<= 1
            if crc & 0x1000000:
                crc ^= 0x1864CFB
    return crc & 0xFFFFFF


def frame(payload):
    f = bytes([0xD3, (len(payload) >> 8) & 3, len(payload) & 0xFF]) + bytes(payload)
    c = crc24q(f)
    return f + bytes([(c >> 16) & 0xFF, (c >> 8) & 0xFF, c & 0xFF])


def features(repo):
    s = open(os.path.join(repo, "Cargo.toml")).read()
    m = re.search(r"all_msgs\s*=\s*\[(.*?)\]", s, re.S)
    return sorted(int(x) for x in re.findall(r'"msg(\d+)"', m.group(1)))


def env(tdir):
    e = dict(os.environ)
    e["CARGO_NET_OFFLINE"] = "true"
    e["CARGO_TARGET_DIR"] = tdir
    e["CARGO_TERM_COLOR"] = "never"
    e.pop("RUSTFLAGS", None)
    return e


def write_crate(dst, name, kind, repo, nums, src):
    os.makedirs(os.path.join(dst, "src"), exist_ok=True)
    feats = "\n".join('msg%d = ["rtcm-rs/msg%d"]' % (n, n) for n in nums)
    lib = '[lib]\ncrate-type = ["staticlib"]\npath = "src/lib.rs"\n' if kind == "lib" else '[[bin]]\nname = "%s"\npath = "src/main.rs"\n' % name
    toml = """[package]
name = "%s"
version = "0.1.0"
edition = "2021"

%s
[dependencies]
rtcm-rs = { path = "%s", default-features = false }

[features]
all_msgs = ["rtcm-rs/all_msgs"]
serde = ["rtcm-rs/serde"]
std = ["rtcm-rs/std"]
%s

[profile.release]
opt-level = 0
codegen-units = 16
panic = "%s"
debug = false
incremental = false

[workspace]
""" % (name, lib, repo, feats, "abort" if kind == "lib" else "unwind")
    open(os.path.join(dst, "Cargo.toml"), "w").write(toml)
    shutil.copy(src, os.path.join(dst, "src", "lib.rs" if kind == "lib" else "main.rs"))
    lock = os.path.join(repo, "Cargo.lock")
    if os.path.exists(lock):
        shutil.copy(lock, os.path.join(dst, "Cargo.lock"))


def run(cmd, cwd, e, timeout=1200):
    try:
        r = subprocess.run(cmd, cwd=cwd, env=e, stdout=subprocess.PIPE, stderr=subprocess.STDOUT, text=True, timeout=timeout)
        return r.returncode, r.stdout
    except subprocess.TimeoutExpired:
        return 124, "timeout"


def cfg_name(cfg):
    feats, serde = cfg
    return (",".join(feats) if feats else "(empty)") + ("+serde" if serde else "")


def main(root, repo, tier, replay):
    t0 = time.time()
    work = os.path.join(root, "harness", "target-feat")
    os.makedirs(work, exist_ok=True)
    nums = features(repo)
    thorough = tier == "thorough"
    known = []
    try:
        known = [k for k in json.load(open(os.path.join(root, "known_findings.json"))).get("findings", []) if k.get("property") == "C19" and k.get("status") == "known"]
    except Exception:
        pass
    # configurations
    base_cfgs = [([], False)] + [(["msg%d" % n], False) for n in nums] + [(["all_msgs"], False)]
    cfgs = list(base_cfgs)
    if thorough:
        cfgs += [(f, True) for f, _ in base_cfgs]
    check_cfgs = cfgs if thorough else []
    if replay:
        rj = json.load(open(replay))
        c = rj["replay"]["config"]
        cfgs = [(c["features"], c["serde"])]
        check_cfgs = cfgs
        drive = [n for n in nums if "msg%d" % n in c["features"]]
        probe_cfgs = cfgs
    else:
        drive = nums
        probe_cfgs = base_cfgs
    workers = int(os.environ.get("VERIF_JOBS", "0")) or os.cpu_count() or 4
    workers = max(1, min(workers, 16))
    violations = []  # (key, what, replay-json)
    transitions = 0
    outcomes = {}

    def bump(k, n=1):
        outcomes[k] = outcomes.get(k, 0) + n

    # ---- step 1: cargo check of every configuration (cargo jobs limited so that 16 workers fit)
    jobs = max(1, (os.cpu_count() or 4) // workers)

    def check_cfg(args):
        i, cfg = args
        feats, serde = cfg
        tdir = os.path.join(work, "w%d" % (i % workers))
        fl = list(feats) + (["serde"] if serde else [])
        cmd = ["cargo", "check", "--lib", "--offline", "--manifest-path", os.path.join(repo, "Cargo.toml"), "--no-default-features", "-j", str(jobs)]
        if fl:
            cmd += ["--features", ",".join(fl)]
        return cfg, run(cmd, repo, env(tdir))

    # worker-affine scheduling: configurations of one worker run sequentially in its own target dir
    def worker_chain(w, items):
        return [check_cfg(it) for it in items]

    chains = {}
    for i, cfg in enumerate(check_cfgs):
        chains.setdefault(i % workers, []).append((i, cfg))
    with concurrent.futures.ThreadPoolExecutor(max_workers=workers) as ex:
        futs = [ex.submit(worker_chain, w, items) for w, items in chains.items()]
        for f in futs:
            for cfg, (rc, out) in f.result():
                transitions += 1
                if rc == 0:
                    bump("builds-without-std" + ("+serde" if cfg[1] else ""))
                else:
                    tail = "\n".join(out.splitlines()[-25:])
                    first_err = next((l for l in out.splitlines() if l.startswith("error")), "error")
                    violations.append(("build:" + cfg_name(cfg), "feature selection %s does not build without std: %s" % (cfg_name(cfg), first_err),
                                       {"kind": "feature_config", "config": {"features": cfg[0], "serde": cfg[1]}, "step": "cargo check", "output_tail": tail}))
    # ---- step 2: driver
    drv = os.path.join(work, "feat-driver")
    write_crate(drv, "feat-driver", "bin", repo, nums, os.path.join(root, "harness", "feat-driver", "src", "main.rs"))
    inp = os.path.join(work, "frames.txt")
    with open(inp, "w") as f:
        for n in range(4096):
            p = bytearray(1023)
            p[0] = n >> 4
            p[1] = (n & 0xF) << 4
            f.write("zero1023:%d %s\n" % (n, frame(p).hex()))
            # short payloads (too short for any message body) must classify by number as well
            for ln, fillb in ((2, 0x00), (8, 0xFF), (21, 0x00)):
                q = bytearray([fillb] * ln)
                q[0] = n >> 4
                q[1] = (q[1] & 0x0F) | ((n & 0xF) << 4)
                f.write("short%d:%d %s\n" % (ln, n, frame(q).hex()))
        tdd = os.path.join(repo, "testdata")
        for name in sorted(os.listdir(tdd)):
            m = re.match(r"msg(\d+)_(\d+)\.rtcm$", name)
            if m:
                f.write("testdata%s:%s %s\n" % (m.group(2), m.group(1), open(os.path.join(tdd, name), "rb").read().hex()))
        for n in nums:
            for label, fill in (("ones", 0xFF), ("counter", None)):
                p = bytearray((i * 29 + 7) & 0xFF for i in range(200)) if fill is None else bytearray([fill] * 200)
                p[0] = n >> 4
                p[1] = (p[1] & 0x0F) | ((n & 0xF) << 4)
                f.write("%s:%d %s\n" % (label, n, frame(p).hex()))

    def build_and_run(w, feats, serde=True):
        tdir = os.path.join(work, "w%d" % w)
        # std + serde: together with the no_std probe (no serde) the quick tier sees every single feature
        # with serde off and on
        cmd = ["cargo", "build", "--release", "--offline", "--no-default-features", "-j", str(jobs), "--features", ",".join(feats + ["std"] + (["serde"] if serde else []))]
        rc, out = run(cmd, drv, env(tdir))
        if rc != 0:
            return None, out
        exe = os.path.join(tdir, "release", "feat-driver")
        r = subprocess.run([exe, inp], stdout=subprocess.PIPE, stderr=subprocess.STDOUT, text=True)
        if r.returncode != 0:
            return None, r.stdout[-2000:]
        return dict(l.split(" ", 1) for l in r.stdout.splitlines() if " " in l), ""

    ref, out = build_and_run(0, ["all_msgs"])
    transitions += 1
    machinery = None
    if ref is None and re.search(r"^error(\[E\d+\])?:", out, re.M) and "could not compile `rtcm-rs`" in out:
        # the full selection itself does not compile with serde: a finding about that configuration;
        # the comparison below then uses the reference built without serde (its output does not depend on it)
        errs = [l for l in out.splitlines() if l.startswith("error")]
        violations.append(("driver-build:all_msgs+serde", "the crate does not build with all_msgs, std and serde: %s" % " | ".join(errs[:3]), {"kind": "feature_config", "config": {"features": ["all_msgs", "std"], "serde": True}, "step": "driver", "output_tail": "\n".join(out.splitlines()[-25:])}))
        ref, out = build_and_run(0, ["all_msgs"], serde=False)
        transitions += 1
    if ref is None:
        machinery = "reference driver (all_msgs) does not build/run: " + "\n".join(out.splitlines()[-15:])
    else:
        def drive_one(args):
            w, n = args
            return n, build_and_run(w, ["msg%d" % n])

        chains = {}
        for i, n in enumerate(drive):
            chains.setdefault(1 + i % max(1, workers - 1) if workers > 1 else 0, []).append(n)

        def chain2(w, items):
            return [drive_one((w, n)) for n in items]

        with concurrent.futures.ThreadPoolExecutor(max_workers=workers) as ex:
            futs = [ex.submit(chain2, w, items) for w, items in chains.items()]
            for f in futs:
                for n, (got, out) in f.result():
                    transitions += 1
                    cfgj = {"features": ["msg%d" % n, "std"], "serde": True}
                    if got is None:
                        errs = [l for l in out.splitlines() if l.startswith("error")]
                        violations.append(("driver-build:msg%d" % n, "driver does not build/run with only msg%d: %s" % (n, " | ".join(errs[:3]) or "\n".join(out.splitlines()[-4:])), {"kind": "feature_config", "config": cfgj, "step": "driver", "output_tail": "\n".join(out.splitlines()[-25:])}))
                        continue
                    bad = None
                    for label, refv in ref.items():
                        num = int(label.split(":")[1])
                        g = got.get(label)
                        if num == n:
                            if g != refv:
                                bad = "frame %s decodes differently in the msg%d-only build: %s vs full build %s" % (label, n, (g or "")[:160], refv[:160])
                                break
                        else:
                            want_tail = "MsgNotSupported(MsgNotSupportedT { message_number: %d })" % num
                            if g is None or not g.endswith(want_tail):
                                bad = "frame %s (number %d) in the msg%d-only build gives %s, expected MsgNotSupported" % (label, num, n, (g or "")[:160])
                                break
                    if bad:
                        violations.append(("driver:msg%d" % n, bad, {"kind": "feature_config", "config": cfgj, "step": "driver"}))
                    else:
                        bump("single-feature-build-decodes-like-full-build")
    # ---- step 3: no_std probe
    prb = os.path.join(work, "nostd-probe")
    write_crate(prb, "nostd-probe", "lib", repo, nums, os.path.join(root, "harness", "nostd-probe", "src", "lib.rs"))

    def probe(args):
        i, cfg = args
        tdir = os.path.join(work, "w%d" % (i % workers))
        cmd = ["cargo", "build", "--release", "--offline", "--no-default-features", "-j", str(jobs)]
        if cfg[0]:
            cmd += ["--features", ",".join(cfg[0])]
        return cfg, run(cmd, prb, env(tdir))

    chains = {}
    for i, cfg in enumerate(probe_cfgs):
        chains.setdefault(i % workers, []).append((i, cfg))

    def chain3(w, items):
        return [probe(it) for it in items]

    with concurrent.futures.ThreadPoolExecutor(max_workers=workers) as ex:
        futs = [ex.submit(chain3, w, items) for w, items in chains.items()]
        for f in futs:
            for cfg, (rc, out) in f.result():
                transitions += 1
                if rc == 0:
                    bump("no_std-probe-links")
                else:
                    first_err = next((l for l in out.splitlines() if l.startswith("error")), "error")
                    violations.append(("nostd-probe:" + cfg_name(cfg), "no_std probe does not build for %s: %s" % (cfg_name(cfg), first_err),
                                       {"kind": "feature_config", "config": {"features": cfg[0], "serde": cfg[1]}, "step": "no_std probe", "output_tail": "\n".join(out.splitlines()[-25:])}))
    if not replay and not os.environ.get("VERIF_KEEP_FEAT"):
        shutil.rmtree(work, ignore_errors=True)
    if machinery:
        print("MACHINERY-FAILURE: " + machinery)
        return 2
    # ---- report
    n_new = 0
    n_known = 0
    rdir = os.path.join(root, "replays", "C19")
    if os.path.isdir(rdir) and not replay:
        shutil.rmtree(rdir, ignore_errors=True)
    for key, what, rj in violations:
        k = next((k for k in known if k.get("key") == key), None)
        if k:
            n_known += 1
            print("KNOWN-FINDING: property=C19 key=%s %s" % (key, k.get("what", "")))
            continue
        n_new += 1
        os.makedirs(rdir, exist_ok=True)
        path = os.path.join(rdir, re.sub(r"[^A-Za-z0-9_.-]", "_", key)[:60] + "-" + hashlib.sha1(key.encode()).hexdigest()[:12] + ".json")
        if not replay:
            json.dump({"property": "C19", "key": key, "what": what, "profile": "cargo", "tier": tier, "replay": rj}, open(path, "w"), indent=1)
        print("  what: " + what.replace("\n", " | ")[:600])
        print("VIOLATION property=C19 replay=%s" % (replay or path))
    if replay:
        if not violations:
            print("replay: configuration builds and behaves as required")
        return 1 if violations else 0
    ev = {
        "property_id": "C19", "tier": tier, "seed": int(os.environ.get("VERIF_SEED", "0") or 0), "level": "model_checking",
        "coverage": {
            "states": len(cfgs), "transitions": transitions, "traces_validated_against_impl": outcomes.get("single-feature-build-decodes-like-full-build", 0),
            "evaluations": transitions, "distinct_nontrivial": len(cfgs),
            "rule": "the finite configuration space {empty, each msgNNNN alone, all_msgs} x {no std} is enumerated completely: each configuration is built without std as a #![no_std] staticlib with its own panic handler (any std in the graph collides with it); thorough: additionally cargo check of every configuration with serde off and on; a driver built (with std and serde) against every single-feature selection decodes 4096 zero frames and 3 x 4096 short frames (one per message number), all testdata frames and ones/counter frames per supported number and is compared line by line with the all_msgs build. states = configurations; transitions = cargo builds / driver comparisons",
            "exhaustive": True,
            "bounds": {"configurations": len(cfgs), "driver_configurations": len(drive), "nostd_probe_configurations": len(probe_cfgs), "message_features": len(nums)},
            "outcomes": outcomes, "distinct_outcomes": len(outcomes),
            "samples": [{"config": cfg_name(cfgs[0])}, {"config": cfg_name(cfgs[1]), "driver": "4096 zero frames + testdata + ones/counter frames vs all_msgs build"}, {"config": cfg_name(base_cfgs[-1]), "probe": "no_std staticlib with own panic handler"}],
            "known_findings_matched": n_known,
        },
        "assumptions": ["host target only (x86_64-unknown-linux-gnu); 'builds without the standard library' is decided by #![no_std] builds plus the duplicate-lang-item probe"],
        "wall_s": time.time() - t0, "violations": n_new,
    }
    os.makedirs(os.path.join(root, "evidence"), exist_ok=True)
    json.dump(ev, open(os.path.join(root, "evidence", "C19.json"), "w"), indent=1)
    print("C19 [%s]: configurations=%d cargo/driver runs=%d outcomes=%s violations=%d known=%d wall=%.1fs" % (tier, len(cfgs), transitions, outcomes, n_new, n_known, time.time() - t0))
    return 1 if n_new else 0


if __name__ == "__main__":
    sys.exit(main(os.path.dirname(os.path.abspath(__file__)), os.environ.get("VERIF_REPO", "/repo"), sys.argv[1] if len(sys.argv) > 1 else "quick", None))

//! E-decode: deviation-bounded exploration of the decoder (C02; C01 part A).
//!
//! The decoder reads its payload through one bit reader; each `parse(len)` call is a choice
//! point (hook H2 records offset and length).  The default answer is "the bits of the base
//! payload"; deviations are alternative field values.  All executions with 0, then 1, then
//! (thorough) 2 deviations are explored, exactly as iterative context bounding explores
//! preemptions.

use crate::common::*;
use mc_core::*;
use rtcm_rs::prelude::*;
use rtcm_rs::verif::{trace_start, trace_take, TRACE_CONSUME};
use serde_json::json;
use std::collections::{BTreeSet, HashSet};

pub const PAYLOAD_MAX: usize = 1023;

#[derive(Clone, Copy, PartialEq, Eq, Debug)]
pub enum Cls {
    Typed,
    Corrupt,
    Empty,
    Unsupported,
    Panic,
}

pub struct Run {
    pub cls: Cls,
    /// (offset, len, is_consume) relative to the payload
    pub trace: Vec<(u32, u32, bool)>,
    pub shape: u64,
    pub needed_bits: u32,
}

pub struct Engine<'a> {
    pub crc: Crc24Table,
    pub frame: Vec<u8>,
    pub prop: &'a str,
    pub number: u16,
    pub check_debug: bool,
    /// C14: is `number` one of the compiled-in message features?
    pub supported: bool,
}

fn shape_of(trace: &[(u32, u32, bool)], cls: Cls) -> u64 {
    let mut h = 0xcbf29ce484222325u64 ^ (cls as u64);
    for (o, l, c) in trace {
        h = fnv64_add(h, &o.to_le_bytes());
        h = fnv64_add(h, &l.to_le_bytes());
        h = fnv64_add(h, &[*c as u8]);
    }
    h
}

fn has_nonfinite_token(s: &str) -> bool {
    // Debug of f32/f64 prints NaN / inf / -inf
    s.contains("NaN") || s.contains("inf")
}

/// sort key for the "up to the order of satellite groups" clause of C01
pub fn normalise_bias_order(m: &Message) -> Message {
    match m {
        Message::Msg1059(t) => {
            let mut t = t.clone();
            t.biases.as_mut_slice().sort_by_key(|b| b.satellite_id);
            Message::Msg1059(t)
        }
        Message::Msg1065(t) => {
            let mut t = t.clone();
            t.biases.as_mut_slice().sort_by_key(|b| b.satellite_id);
            Message::Msg1065(t)
        }
        other => other.clone(),
    }
}

impl<'a> Engine<'a> {
    pub fn new(prop: &'a str, number: u16) -> Self {
        Engine { crc: Crc24Table::new(), frame: Vec::with_capacity(1040), prop, number, check_debug: false, supported: true }
    }

    /// one execution of the real decoder on make_frame(payload[..t])
    pub fn run(&mut self, payload: &[u8], t: usize, rep: &mut Report, desc: &dyn Fn() -> serde_json::Value) -> Run {
        make_frame_fast(&self.crc, &payload[..t], &mut self.frame);
        let frame = &self.frame;
        rep.transitions += 1;
        trace_start();
        let check_debug = self.check_debug;
        let want_c01 = self.prop == "C01";
        let self_prop_c14 = self.prop == "C14";
        let supported = self.supported;
        let number = self.number;
        let r = catch(|| {
            let (consumed, fr) = next_msg_frame(frame);
            let fr = match fr {
                Some(f) => f,
                None => return Err(format!("scanner did not deliver the frame (consumed {})", consumed)),
            };
            let m = fr.get_message();
            let cls = match &m {
                Message::Empty => Cls::Empty,
                Message::Corrupt => Cls::Corrupt,
                Message::MsgNotSupported(_) => Cls::Unsupported,
                _ => Cls::Typed,
            };
            let mut problems: Vec<(&'static str, String)> = vec![];
            if self_prop_c14 && t >= 2 {
                // classification by message number (payload of at least two bytes)
                let ok = if supported {
                    match &m {
                        Message::Corrupt => true,
                        Message::Empty | Message::MsgNotSupported(_) => false,
                        typed => typed.number() == Some(number),
                    }
                } else {
                    matches!(&m, Message::MsgNotSupported(x) if x.message_number == number)
                };
                if !ok {
                    problems.push(("C14", format!("number {} ({}) decodes to {}{}", number, if supported { "a message feature" } else { "not a feature" }, outcome_class(&m), match m.number() { Some(n) => format!(" reporting number {}", n), None => String::new() })));
                }
            }
            #[allow(clippy::eq_op)]
            if m != m {
                problems.push(("C02", "decoded message does not compare equal to itself".into()));
            }
            if check_debug && cls == Cls::Typed {
                let d = format!("{:?}", m);
                if has_nonfinite_token(&d) {
                    problems.push(("C02", "decoded message contains a non-finite float".into()));
                }
            }
            if want_c01 && cls == Cls::Typed {
                // part A: a decoded message is a fixed point whenever the encoder accepts it
                let mut b = MessageBuilder::new();
                if let Ok(bytes) = b.build_message(&m) {
                    let bytes = bytes.to_vec();
                    match MessageFrame::new(&bytes) {
                        Err(e) => problems.push(("C01", format!("built frame is not a valid frame: {:?}", e))),
                        Ok(f2) => {
                            let m2 = f2.get_message();
                            if core::mem::discriminant(&m2) != core::mem::discriminant(&m) {
                                problems.push(("C01", format!("decoded message re-encodes to a frame that decodes to {}", outcome_class(&m2))));
                            } else if m2 != m && normalise_bias_order(&m2) != normalise_bias_order(&m) {
                                problems.push(("C01", "decoded message is not a fixed point: decode(encode(m)) != m".into()));
                            }
                        }
                    }
                    return Ok((cls, problems, true));
                }
                return Ok((cls, problems, false));
            }
            Ok((cls, problems, false))
        });
        let raw = trace_take();
        let mut trace: Vec<(u32, u32, bool)> = Vec::with_capacity(raw.len());
        let mut needed = 0u32;
        for (k, o, l) in raw {
            trace.push((o, l, k == TRACE_CONSUME));
            needed = needed.max(o.saturating_add(l));
        }
        let cls = match r {
            Ok(Ok((cls, problems, accepted))) => {
                if want_c01 && cls == Cls::Typed {
                    rep.outcome(if accepted { "typed-accepted-by-encoder" } else { "typed-refused-by-encoder" });
                    if accepted {
                        rep.traces += 1;
                    }
                }
                for (p, what) in problems {
                    if p == self.prop {
                        let key = format!("{}:{}:{}", if p == "C01" { "fixpoint" } else if p == "C14" { "classify" } else { "value" }, self.number, what.chars().take(48).collect::<String>());
                        rep.violation(p, key, format!("msg {}: {}", self.number, what), t as u64, json!({"kind":"frame_decode","frame":hex(&self.frame),"desc":desc()}));
                    }
                }
                cls
            }
            Ok(Err(e)) => {
                if self.prop == "C02" {
                    rep.violation("C02", format!("not-delivered:{}", self.number), e, t as u64, json!({"kind":"frame_decode","frame":hex(&self.frame),"desc":desc()}));
                }
                Cls::Corrupt
            }
            Err(p) => {
                if self.prop == "C02" {
                    rep.violation("C02", panic_key(&p, &self.number.to_string()), format!("msg {}: decoder panicked at {}: {}", self.number, p.location, p.message), t as u64,
                        json!({"kind":"frame_decode","frame":hex(&self.frame),"desc":desc(),"trace_tail": trace.iter().rev().take(6).collect::<Vec<_>>()}));
                }
                if self.prop == "C14" && t >= 2 {
                    rep.violation("C14", format!("classify:{}:panic:{}", self.number, p.location), format!("number {} ({}): decoding panics instead of classifying the frame: {}", self.number, if self.supported { "a message feature" } else { "not a feature" }, p.message), t as u64,
                        json!({"kind":"frame_decode","frame":hex(&self.frame),"desc":desc()}));
                }
                Cls::Panic
            }
        };
        if self.prop == "C02" || self.prop == "C14" {
            rep.traces += 1;
        }
        let shape = shape_of(&trace, cls);
        Run { cls, trace, shape, needed_bits: needed }
    }
}

pub fn feature_numbers_cached() -> &'static std::collections::BTreeSet<u16> {
    static F: std::sync::OnceLock<std::collections::BTreeSet<u16>> = std::sync::OnceLock::new();
    F.get_or_init(feature_numbers)
}

pub fn alphabet(len: u32, cur: u64, mask_like: bool) -> Vec<u64> {
    let len = len as usize;
    let mut s: BTreeSet<u64> = BTreeSet::new();
    let m = mask(len);
    if len <= 8 {
        for v in 0..(1u64 << len) {
            s.insert(v);
        }
    } else {
        let h = 1u64 << (len - 1);
        for v in [0, 1, 2, h - 1, h, h + 1, m - 1, m] {
            s.insert(v & m);
        }
        if mask_like {
            for k in [1usize, 2, 3, 4, 5, 8, 13, 16, 21, 22, 32, 33, 64] {
                if k <= len {
                    let ones = mask(k);
                    s.insert(ones); // bottom-k
                    s.insert((ones << (len - k)) & m); // top-k
                }
            }
            s.insert(0xAAAA_AAAA_AAAA_AAAA & m);
            s.insert(0x5555_5555_5555_5555 & m);
        }
    }
    s.remove(&(cur & m));
    s.into_iter().collect()
}
fn mask(w: usize) -> u64 {
    if w >= 64 {
        u64::MAX
    } else {
        (1u64 << w) - 1
    }
}

/// byte alphabet for the text region of 1029 (recorded as a consume of len*8 bits)
const TEXT_BYTES: [u8; 14] = [0x00, 0x41, 0x7F, 0x80, 0xBF, 0xC0, 0xC3, 0xE0, 0xE2, 0xED, 0xF0, 0xF4, 0xF8, 0xFF];

/// fields of a trace as deviation sites: (offset, len, alphabet-kind)
fn sites(trace: &[(u32, u32, bool)]) -> Vec<(u32, u32, bool)> {
    let mut out = vec![];
    for &(o, l, c) in trace {
        if (o + l) as usize > 8 * PAYLOAD_MAX {
            continue; // the access that overflowed the payload
        }
        if c {
            // text region: first 4 bytes and the last byte are sites with the byte alphabet
            let nbytes = l / 8;
            for b in (0..nbytes.min(4)).chain(if nbytes > 4 { nbytes - 1..nbytes } else { 0..0 }) {
                out.push((o + 8 * b, 8, true));
            }
        } else if l >= 1 && l <= 64 {
            out.push((o, l, false));
        }
    }
    out
}

fn site_values(site: (u32, u32, bool), cur: u64) -> Vec<u64> {
    if site.2 {
        TEXT_BYTES.iter().map(|b| *b as u64).filter(|v| *v != cur).collect()
    } else {
        alphabet(site.1, cur, site.1 >= 24)
    }
}
fn boundary_values(site: (u32, u32, bool), cur: u64) -> Vec<u64> {
    if site.2 {
        return site_values(site, cur);
    }
    let len = site.1 as usize;
    let m = mask(len);
    let mut s: BTreeSet<u64> = BTreeSet::new();
    if len <= 3 {
        for v in 0..(1u64 << len) {
            s.insert(v);
        }
    } else {
        let h = 1u64 << (len - 1);
        for v in [0, 1, 2, h - 1, h, h + 1, m - 1, m] {
            s.insert(v & m);
        }
        if len >= 24 {
            for k in [1usize, 2, 4, 8, 16, 32, 64] {
                if k <= len {
                    s.insert(mask(k));
                    s.insert((mask(k) << (len - k)) & m);
                }
            }
        }
    }
    s.remove(&(cur & m));
    s.into_iter().collect()
}

pub fn bases_for(number: u16, td: &[(u16, u32, Vec<u8>)], thorough: bool) -> Vec<(String, Vec<u8>)> {
    let head = |p: &mut Vec<u8>| {
        p[0] = (number >> 4) as u8;
        p[1] = (p[1] & 0x0f) | (((number & 0xf) << 4) as u8);
    };
    let mut out = vec![];
    let mut z = vec![0u8; PAYLOAD_MAX];
    head(&mut z);
    out.push(("zero".to_string(), z));
    let mut o = vec![0xFFu8; PAYLOAD_MAX];
    head(&mut o);
    out.push(("ones".to_string(), o));
    for (n, i, f) in td {
        if *n == number && f.len() >= 8 {
            let mut p = f[3..f.len() - 3].to_vec();
            p.resize(PAYLOAD_MAX, 0);
            out.push((format!("testdata{}", i), p));
        }
    }
    if thorough {
        let mut c: Vec<u8> = (0..PAYLOAD_MAX).map(|i| (i * 29 + 7) as u8).collect();
        head(&mut c);
        out.push(("counter".to_string(), c));
    }
    out
}

struct Level1 {
    site: (u32, u32, bool),
    value: u64,
    shape: u64,
}

/// Explore one (number, base): levels 0, 1 and (if cap2 > 0) 2.
pub fn explore_base(prop: &str, number: u16, base_name: &str, base: &[u8], cap2: u64, cap3: u64, truncations: bool, rep: &mut Report) {
    let mut eng = Engine::new(prop, number);
    eng.supported = feature_numbers_cached().contains(&number);
    let id = 0x0200_0000u64 + number as u64;
    watch_enter(id);
    let mut payload = base.to_vec();
    let dz = |lvl: u32, devs: Vec<(u32, u32, u64)>, t: usize| json!({"number":number,"base":base_name,"level":lvl,"deviations":devs.iter().map(|d| json!({"bit_offset":d.0,"bits":d.1,"value":d.2})).collect::<Vec<_>>(),"payload_bytes":t});
    // level 0
    eng.check_debug = true;
    let x0 = eng.run(&payload, PAYLOAD_MAX, rep, &|| dz(0, vec![], PAYLOAD_MAX));
    eng.check_debug = false;
    rep.states += 1;
    rep.outcome(&format!("L0-{:?}", x0.cls));
    let mut shapes: HashSet<u64> = HashSet::new();
    shapes.insert(x0.shape);
    if truncations {
        // the payload length is a further answer: every T for the 0-deviation run
        for t in 0..PAYLOAD_MAX {
            if t % 128 == 0 {
                watch_enter(id);
            }
            let r = eng.run(&payload, t, rep, &|| dz(0, vec![], t));
            rep.outcome(&format!("trunc-{:?}", r.cls));
        }
    }
    // level 1
    let s0 = sites(&x0.trace);
    let mut controls: Vec<Level1> = vec![];
    for &site in &s0 {
        watch_enter(id);
        let cur = get_bits(&payload, site.0 as usize, site.1 as usize);
        let mut prev_shape = x0.shape;
        let mut is_control = false;
        for v in site_values(site, cur) {
            set_bits(&mut payload, site.0 as usize, site.1 as usize, v);
            let x1 = eng.run(&payload, PAYLOAD_MAX, rep, &|| dz(1, vec![(site.0, site.1, v)], PAYLOAD_MAX));
            rep.outcome(&format!("L1-{:?}", x1.cls));
            if shapes.insert(x1.shape) {
                rep.states += 1;
                if x1.cls == Cls::Typed {
                    // first execution with this parse-trace shape: scan its Debug rendering for NaN/inf
                    eng.check_debug = true;
                    eng.run(&payload, PAYLOAD_MAX, rep, &|| dz(1, vec![(site.0, site.1, v)], PAYLOAD_MAX));
                    eng.check_debug = false;
                }
            }
            if x1.shape != x0.shape {
                is_control = true;
            }
            if x1.shape != prev_shape {
                // v is a boundary value of this site: behaviour changes between neighbouring values
                controls.push(Level1 { site, value: v, shape: x1.shape });
                prev_shape = x1.shape;
            }
            if x1.cls == Cls::Typed && truncations {
                // T = needed and needed-1 bytes
                let need = ((x1.needed_bits + 7) / 8) as usize;
                for t in [need, need.saturating_sub(1)] {
                    if t <= PAYLOAD_MAX {
                        eng.run(&payload, t, rep, &|| dz(1, vec![(site.0, site.1, v)], t));
                    }
                }
            }
        }
        set_bits(&mut payload, site.0 as usize, site.1 as usize, cur);
        if is_control {
            rep.add_extra_u64("control_fields", 1);
        }
    }
    rep.add_extra_u64("fields_level0", s0.len() as u64);
    if cap2 == 0 {
        watch_leave();
        return;
    }
    // level 2: control field at each of its boundary values x every later field at its boundary alphabet.
    // (control, control) pairs first, then (control, data) in trace order; the cap is reported, never silent.
    // at most 8 boundary values per control site (distinct shapes first)
    let mut per_site: Vec<((u32, u32, bool), Vec<u64>)> = vec![];
    {
        let mut seen_shapes: HashSet<(u32, u64)> = HashSet::new();
        for c in &controls {
            if !seen_shapes.insert((c.site.0, c.shape)) {
                continue;
            }
            match per_site.iter_mut().find(|(s, _)| *s == c.site) {
                Some((_, vs)) => {
                    if vs.len() < 8 {
                        vs.push(c.value)
                    }
                }
                None => per_site.push((c.site, vec![c.value])),
            }
        }
    }
    let control_offsets: HashSet<u32> = per_site.iter().map(|(s, _)| s.0).collect();
    let mut done2 = 0u64;
    let mut done3 = 0u64;
    let mut capped = false;
    'outer: for pass in 0..2 {
        for (site, vals) in &per_site {
            let cur_i = get_bits(&payload, site.0 as usize, site.1 as usize);
            for &v in vals {
                watch_enter(id);
                set_bits(&mut payload, site.0 as usize, site.1 as usize, v);
                // trace of the run with i := v gives the later fields
                let x1 = eng.run(&payload, PAYLOAD_MAX, rep, &|| dz(1, vec![(site.0, site.1, v)], PAYLOAD_MAX));
                let later: Vec<(u32, u32, bool)> = sites(&x1.trace).into_iter().filter(|s| s.0 > site.0).collect();
                for sj in later {
                    let is_ctrl_j = control_offsets.contains(&sj.0);
                    if (pass == 0) != is_ctrl_j {
                        continue;
                    }
                    let cur_j = get_bits(&payload, sj.0 as usize, sj.1 as usize);
                    let wvals = if is_ctrl_j || cap3 > 0 { site_values(sj, cur_j) } else { boundary_values(sj, cur_j) };
                    for w in wvals {
                        if done2 >= cap2 {
                            capped = true;
                            set_bits(&mut payload, sj.0 as usize, sj.1 as usize, cur_j);
                            set_bits(&mut payload, site.0 as usize, site.1 as usize, cur_i);
                            break 'outer;
                        }
                        set_bits(&mut payload, sj.0 as usize, sj.1 as usize, w);
                        let x2 = eng.run(&payload, PAYLOAD_MAX, rep, &|| dz(2, vec![(site.0, site.1, v), (sj.0, sj.1, w)], PAYLOAD_MAX));
                        done2 += 1;
                        if shapes.insert(x2.shape) {
                            rep.states += 1;
                        }
                        rep.outcome(&format!("L2-{:?}", x2.cls));
                        // level 3 (thorough): a third deviation on every later control-like field (counts, flags,
                        // small indices, masks) when the second deviation was itself on a control field and
                        // changed the shape -- e.g. satellite mask x signal mask x cell mask from the zero base
                        if cap3 > 0 && is_ctrl_j && x2.shape != x1.shape && done3 < cap3 {
                            let later3: Vec<(u32, u32, bool)> = sites(&x2.trace).into_iter().filter(|s| s.0 > sj.0 && (s.1 <= 8 || s.1 >= 24 || s.2)).collect();
                            for sk in later3 {
                                let cur_k = get_bits(&payload, sk.0 as usize, sk.1 as usize);
                                for u in boundary_values(sk, cur_k) {
                                    if done3 >= cap3 {
                                        break;
                                    }
                                    set_bits(&mut payload, sk.0 as usize, sk.1 as usize, u);
                                    let x3 = eng.run(&payload, PAYLOAD_MAX, rep, &|| dz(3, vec![(site.0, site.1, v), (sj.0, sj.1, w), (sk.0, sk.1, u)], PAYLOAD_MAX));
                                    done3 += 1;
                                    if shapes.insert(x3.shape) {
                                        rep.states += 1;
                                    }
                                    rep.outcome(&format!("L3-{:?}", x3.cls));
                                }
                                set_bits(&mut payload, sk.0 as usize, sk.1 as usize, cur_k);
                            }
                        }
                    }
                    set_bits(&mut payload, sj.0 as usize, sj.1 as usize, cur_j);
                }
                set_bits(&mut payload, site.0 as usize, site.1 as usize, cur_i);
            }
        }
    }
    rep.add_extra_u64("level2_executions", done2);
    rep.add_extra_u64("level3_executions", done3);
    if capped {
        rep.add_extra_u64("bases_where_level2_cap_was_hit", 1);
    } else {
        rep.add_extra_u64("bases_with_complete_level2", 1);
    }
    watch_leave();
}

pub fn run_decode_engine(ctx: &Ctx, prop: &'static str) -> Report {
    let nums: Vec<u16> = feature_numbers().into_iter().collect();
    let td = testdata_frames();
    let thorough = ctx.tier.thorough();
    let cap2: u64 = if thorough { 1_500_000 } else { 3_000 };
    let cap3: u64 = if thorough { 150_000 } else { 0 };
    let mut jobs: Vec<(u16, String, Vec<u8>)> = vec![];
    for &n in &nums {
        for (name, b) in bases_for(n, &td, thorough) {
            jobs.push((n, name, b));
        }
    }
    // an unsupported number and the reserved numbers around the supported set, level 0/1 only
    for n in [0u16, 1000, 1018, 1028, 4095] {
        if !nums.contains(&n) {
            let mut z = vec![0u8; PAYLOAD_MAX];
            z[0] = (n >> 4) as u8;
            z[1] = ((n & 0xf) << 4) as u8;
            jobs.push((n, "zero".into(), z));
        }
    }
    let truncations = prop == "C02";
    let parts = par_shards(jobs.len(), |i| {
        let mut rep = Report::new();
        let (n, name, b) = &jobs[i];
        explore_base(prop, *n, name, b, cap2, cap3, truncations, &mut rep);
        rep.add_extra_u64("bases", 1);
        rep
    });
    let mut rep = Report::new();
    for p in parts {
        rep.merge(p);
    }
    rep.extra.insert("supported_numbers".into(), json!(nums.len()));
    rep.extra.insert("level2_cap_per_base".into(), json!(cap2));
    rep.extra.insert("level3_cap_per_base".into(), json!(cap3));
    rep
}

/// typed messages decoded from the level-0 bases (used by C12's pool)
pub fn base_messages() -> Vec<(String, Vec<u8>)> {
    let nums: Vec<u16> = feature_numbers().into_iter().collect();
    let td = testdata_frames();
    let mut out = vec![];
    for &n in &nums {
        for (name, b) in bases_for(n, &td, true) {
            out.push((format!("{}:{}", n, name), make_frame(&b)));
        }
    }
    out
}

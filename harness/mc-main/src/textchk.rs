//! C17: text fields are preserved exactly or cut on a character boundary.

use crate::common::*;
use mc_core::text::*;
use mc_core::*;
use rtcm_rs::msg::*;
use rtcm_rs::prelude::*;
use rtcm_rs::util::{ArrayString, Df88591String};
use serde_json::json;

// the last two are astral characters whose low 16 bits are a Latin-1 code (truncating casts map them to 'A' / 0x0B)
const SIGMA: [char; 10] = ['A', '\0', '\u{a4}', '\u{e9}', '\u{ff}', '\u{100}', '\u{20ac}', '\u{1f600}', '\u{10041}', '\u{2000b}'];

fn strings_over(alpha: &[char], maxlen: usize) -> Vec<String> {
    let mut out = vec![String::new()];
    let mut cur = vec![String::new()];
    for _ in 0..maxlen {
        let mut next = Vec::with_capacity(cur.len() * alpha.len());
        for s in &cur {
            for c in alpha {
                let mut t = s.clone();
                t.push(*c);
                next.push(t);
            }
        }
        out.extend(next.iter().cloned());
        cur = next;
    }
    out
}

fn esc(s: &str) -> String {
    s.chars().map(|c| format!("U+{:04X}", c as u32)).collect::<Vec<_>>().join(" ")
}

fn conv_check<const N: usize>(rep: &mut Report, s: &str) {
    rep.transitions += 2;
    rep.traces += 1;
    // descriptor field
    let r = catch(|| {
        let d = Df88591String::<N>::from(s);
        let bytes: Vec<u8> = d.iter().cloned().collect();
        let chars: Vec<char> = d.chars().collect();
        (bytes, chars, d.len())
    });
    let exp = ref_latin1(s, N);
    match r {
        Err(p) => rep.violation("C17", format!("latin1<{}>:panic:{}", N, p.location), format!("Df88591String<{}>::from({}) panicked: {}", N, esc(s), p.message), s.len() as u64, json!({"kind":"text_conv","n":N,"chars":s.chars().map(|c| c as u32).collect::<Vec<_>>()})),
        Ok((bytes, chars, len)) => {
            let exp_chars: Vec<char> = exp.iter().map(|b| latin1_char(*b)).collect();
            if bytes != exp || chars != exp_chars || len != exp.len() {
                rep.violation("C17", format!("latin1<{}>:mapping", N), format!("Df88591String<{}>::from({}): bytes {:02x?} chars {:?} len {}, expected bytes {:02x?}", N, esc(s), bytes, chars, len, exp), s.len() as u64,
                    json!({"kind":"text_conv","n":N,"chars":s.chars().map(|c| c as u32).collect::<Vec<_>>()}));
            }
        }
    }
    // UTF-8 field
    let r = catch(|| {
        let a = ArrayString::<N>::from(s);
        let st: &str = &a;
        st.as_bytes().to_vec()
    });
    let exp = ref_utf8_prefix(s, N);
    match r {
        Err(p) => rep.violation("C17", format!("utf8<{}>:panic:{}", N, p.location), format!("ArrayString<{}>::from({}) panicked: {}", N, esc(s), p.message), s.len() as u64, json!({"kind":"text_conv","n":N,"chars":s.chars().map(|c| c as u32).collect::<Vec<_>>()})),
        Ok(bytes) => {
            if bytes != exp.as_bytes() || !utf8_valid(&bytes) {
                rep.violation("C17", format!("utf8<{}>:prefix", N), format!("ArrayString<{}>::from({}): {:02x?}, expected the longest whole-character prefix {:02x?}", N, esc(s), bytes, exp.as_bytes()), s.len() as u64,
                    json!({"kind":"text_conv","n":N,"chars":s.chars().map(|c| c as u32).collect::<Vec<_>>()}));
            }
        }
    }
}

fn decode_zero(n: u16) -> Message {
    let mut z = vec![0u8; 1023];
    z[0] = (n >> 4) as u8;
    z[1] = ((n & 0xf) << 4) as u8;
    let f = make_frame(&z);
    MessageFrame::new(&f).map(|fr| fr.get_message()).unwrap_or(Message::Corrupt)
}

fn roundtrip(rep: &mut Report, m: &Message, what: &str, expect_err: bool) {
    rep.transitions += 2;
    rep.traces += 1;
    let r = catch(|| {
        let mut b = MessageBuilder::new();
        match b.build_message(m) {
            Err(e) => Err(format!("{:?}", e)),
            Ok(bytes) => {
                let bytes = bytes.to_vec();
                Ok((MessageFrame::new(&bytes).map(|f| f.get_message()).unwrap_or(Message::Corrupt), bytes))
            }
        }
    });
    // Debug of a text field reads it as str: that may itself panic on a broken field
    let desc = || json!({"kind":"text_message","what":what,"message":catch(|| format!("{:?}", m).chars().take(400).collect::<String>()).unwrap_or_else(|p| format!("<Debug panics: {}>", p.message))});
    match (r, expect_err) {
        (Err(p), _) => rep.violation("C17", format!("msg:{}:panic:{}", m.number().unwrap_or(0), p.location), format!("{}: panic {}", what, p.message), 1, desc()),
        (Ok(Err(_)), true) => rep.outcome("refused-as-required"),
        (Ok(Err(e)), false) => rep.violation("C17", format!("msg:{}:refused", m.number().unwrap_or(0)), format!("{}: build refused with {}", what, e), 1, desc()),
        (Ok(Ok((_, f))), true) => rep.violation("C17", format!("msg:{}:not-refused", m.number().unwrap_or(0)), format!("{}: built a frame of {} bytes although the text exceeds 127 characters / 255 bytes", what, f.len()), 1, desc()),
        (Ok(Ok((m2, _))), false) => {
            if &m2 != m {
                rep.violation("C17", format!("msg:{}:roundtrip", m.number().unwrap_or(0)), format!("{}: text field changed through encode/decode: got {}", what, catch(|| format!("{:?}", m2).chars().take(300).collect::<String>()).unwrap_or_default()), 1, desc());
            } else {
                rep.outcome("message-roundtrip");
            }
        }
    }
}

fn desc_strings() -> Vec<String> {
    // every length 0..=31 over {ASCII, high Latin-1}, two phase patterns, plus mixed
    let mut v = vec![];
    for len in 0..=31usize {
        v.push((0..len).map(|i| (b'A' + (i % 26) as u8) as char).collect::<String>());
        v.push((0..len).map(|i| char::from_u32(0xC0 + (i % 0x3F) as u32).unwrap()).collect::<String>());
        v.push((0..len).map(|i| if i % 2 == 0 { 'z' } else { '\u{ff}' }).collect::<String>());
        v.push((0..len).map(|i| if i % 3 == 0 { '\u{a4}' } else { '\u{80}' }).collect::<String>());
        // Latin-1 bytes that happen to be valid multi-byte UTF-8
        v.push((0..len).map(|i| ['\u{c3}', '\u{bc}'][i % 2]).collect::<String>());
        v.push((0..len).map(|i| ['\u{e2}', '\u{82}', '\u{ac}', 'x'][i % 4]).collect::<String>());
    }
    v
}

pub fn c17(ctx: &Ctx) -> (Report, Meta) {
    let mut rep = Report::new();
    let maxlen = ctx.tier.pick(5usize, 6usize);
    // conversions
    let all = strings_over(&SIGMA, maxlen);
    let nsh = 64;
    let parts = par_shards(nsh, |sh| {
        let mut rep = Report::new();
        watch_enter(0x1700_0000 + sh as u64);
        for (i, s) in all.iter().enumerate() {
            if i % nsh != sh {
                continue;
            }
            conv_check::<7>(&mut rep, s);
            conv_check::<31>(&mut rep, s);
            conv_check::<255>(&mut rep, s);
            rep.states += 1;
        }
        watch_leave();
        rep
    });
    for p in parts {
        rep.merge(p);
    }
    // the per-character mapping for EVERY character: the one-character string and the character between two 'A's
    let parts = par_shards(nsh, |sh| {
        let mut rep = Report::new();
        watch_enter(0x1702_0000 + sh as u64);
        let mut buf = String::new();
        for cp in (sh as u32..0x11_0000).step_by(nsh) {
            let Some(c) = char::from_u32(cp) else { continue };
            buf.clear();
            buf.push(c);
            conv_check::<7>(&mut rep, &buf);
            buf.clear();
            buf.push('A');
            buf.push(c);
            buf.push('A');
            conv_check::<7>(&mut rep, &buf);
            rep.states += 1;
        }
        watch_leave();
        rep
    });
    for p in parts {
        rep.merge(p);
    }
    // N = 7: every string over {A, e-acute, euro, emoji} up to length 9 (every way of straddling 7 bytes)
    let four = ['A', '\u{e9}', '\u{20ac}', '\u{1f600}'];
    let s7 = strings_over(&four, ctx.tier.pick(9, 10));
    let parts = par_shards(nsh, |sh| {
        let mut rep = Report::new();
        watch_enter(0x1701_0000 + sh as u64);
        for (i, s) in s7.iter().enumerate() {
            if i % nsh != sh {
                continue;
            }
            conv_check::<7>(&mut rep, s);
            rep.states += 1;
        }
        watch_leave();
        rep
    });
    for p in parts {
        rep.merge(p);
    }
    // N = 31, 255: prefix 'A'^k, k in N-6..=N+1, followed by every string over SIGMA of length <= 3
    let tails = strings_over(&SIGMA, 3);
    for n in [31usize, 255] {
        for k in n - 6..=n + 1 {
            let pre: String = std::iter::repeat('A').take(k).collect();
            for t in &tails {
                let s = format!("{}{}", pre, t);
                if n == 31 {
                    conv_check::<31>(&mut rep, &s);
                } else {
                    conv_check::<255>(&mut rep, &s);
                }
                rep.states += 1;
            }
        }
    }
    // FromIterator / try_push paths give the same result as From<&str>
    for s in all.iter().take(5000) {
        let r = catch(|| {
            let a: Df88591String<7> = s.chars().collect();
            let b = Df88591String::<7>::from(s.as_str());
            let c: ArrayString<7> = s.chars().collect();
            let d = ArrayString::<7>::from(s.as_str());
            a == b && c == d
        });
        if !matches!(r, Ok(true)) {
            rep.violation("C17", "collect-vs-from".into(), format!("collect() and From<&str> disagree or panic for {}: {:?}", esc(s), r), s.len() as u64, json!({"kind":"text_conv","n":7,"chars":s.chars().map(|c| c as u32).collect::<Vec<_>>()}));
        }
    }
    // message round trips with descriptor strings
    let ds = desc_strings();
    for s in &ds {
        let built = catch(|| {
        let d = || Df88591String::<31>::from(s.as_str());
        let mut msgs: Vec<(Message, &str)> = vec![];
        if let Message::Msg1007(mut t) = decode_zero(1007) {
            t.antenna_descriptor_str = d();
            msgs.push((Message::Msg1007(t), "1007"));
        }
        if let Message::Msg1008(mut t) = decode_zero(1008) {
            t.antenna_descriptor_str = d();
            t.antenna_serial_number_str = d();
            msgs.push((Message::Msg1008(t), "1008"));
        }
        if let Message::Msg1033(mut t) = decode_zero(1033) {
            t.antenna_descriptor_str = d();
            t.antenna_serial_number_str = Df88591String::<31>::from("x");
            t.receiver_type_descriptor_str = d();
            t.receiver_firmware_version_str = Df88591String::<31>::from("");
            t.receiver_serial_number_str = d();
            msgs.push((Message::Msg1033(t), "1033"));
        }
        if let Message::Msg1021(mut t) = decode_zero(1021) {
            t.source_name_str = d();
            t.target_name_str = d();
            msgs.push((Message::Msg1021(t), "1021"));
        }
        if let Message::Msg1022(mut t) = decode_zero(1022) {
            t.source_name_str = d();
            t.target_name_str = d();
            msgs.push((Message::Msg1022(t), "1022"));
        }
        if let Message::Msg1300(mut t) = decode_zero(1300) {
            t.service_crs_name_str = d();
            msgs.push((Message::Msg1300(t), "1300"));
        }
        if let Message::Msg1301(mut t) = decode_zero(1301) {
            t.source_name_str = d();
            t.target_name_str = d();
            msgs.push((Message::Msg1301(t), "1301"));
        }
        if let Message::Msg1302(mut t) = decode_zero(1302) {
            t.rtcm_crs_name_str = d();
            for _ in 0..3 {
                t.db_links.push(Msg1302Link { database_link_str: d() });
            }
            msgs.push((Message::Msg1302(t), "1302"));
        }
        msgs
        });
        let msgs = match built {
            Ok(m) => m,
            Err(p) => {
                rep.violation("C17", format!("desc-conv-panic:{}", p.location), format!("converting {} to a descriptor field panicked: {}", esc(s), p.message), s.len() as u64, json!({"kind":"text_conv","n":31,"chars":s.chars().map(|c| c as u32).collect::<Vec<_>>()}));
                continue;
            }
        };
        if msgs.len() != 8 {
            rep.violation("C17", "zero-base-not-typed".into(), format!("only {} of the 8 descriptor-string messages decode from a zero payload", msgs.len()), 0, json!({"kind":"text_message"}));
        }
        for (m, w) in &msgs {
            roundtrip(&mut rep, m, &format!("msg {} with descriptor {}", w, esc(s).chars().take(80).collect::<String>()), false);
            rep.states += 1;
        }
    }
    // 1029 texts
    let base1029 = decode_zero(1029);
    let mk1029 = |s: &str| -> Option<Message> {
        if let Message::Msg1029(t) = &base1029 {
            let mut t = t.clone();
            t.text_str = ArrayString::<255>::from(s);
            Some(Message::Msg1029(t))
        } else {
            None
        }
    };
    if mk1029("").is_none() {
        rep.violation("C17", "zero-base-1029".into(), "1029 zero payload does not decode to a typed message".into(), 0, json!({"kind":"text_message"}));
    } else {
        let mut texts: Vec<String> = vec![];
        for k in 249..=256usize {
            let pre: String = std::iter::repeat('A').take(k).collect();
            for t in &tails {
                texts.push(format!("{}{}", pre, t));
            }
        }
        for s in all.iter().take(ctx.tier.pick(4681, all.len())) {
            texts.push(s.clone());
        }
        // 126/127/128 characters of 1 and 2 bytes, 255/256 bytes
        for n in [0usize, 1, 126, 127, 128, 129, 200, 254, 255, 256] {
            texts.push(std::iter::repeat('b').take(n).collect());
            texts.push(std::iter::repeat('\u{e9}').take(n).collect());
            texts.push(std::iter::repeat('\u{20ac}').take(n).collect());
        }
        // character counts around 127 made of mixed widths (1-, 2-, 3- and 4-byte characters)
        for k in 118..=128usize {
            for j in 0..=10usize {
                for wide in ['\u{e9}', '\u{20ac}', '\u{1f600}'] {
                    let mut t: String = std::iter::repeat('a').take(k).collect();
                    t.extend(std::iter::repeat(wide).take(j));
                    if t.len() <= 255 {
                        texts.push(t.clone());
                        // the same with the wide characters first
                        let mut u: String = std::iter::repeat(wide).take(j).collect();
                        u.extend(std::iter::repeat('a').take(k));
                        texts.push(u);
                    }
                }
            }
        }
        // byte lengths around 255 with every admissible number of 2-/3-/4-byte characters (exactly 255 bytes with
        // at most 127 characters must be accepted)
        for total in 250..=257usize {
            for wide in ['\u{e9}', '\u{20ac}', '\u{1f600}'] {
                let w = wide.len_utf8();
                for j in 0..=total / w {
                    let k = total - w * j;
                    if k + j < 100 || k + j > 130 {
                        continue;
                    }
                    let mut t: String = std::iter::repeat(wide).take(j).collect();
                    t.extend(std::iter::repeat('a').take(k));
                    texts.push(t);
                    let mut u: String = std::iter::repeat('a').take(k).collect();
                    u.extend(std::iter::repeat(wide).take(j));
                    texts.push(u);
                }
            }
        }
        for s in &texts {
            let m = match catch(|| mk1029(s).unwrap()) {
                Ok(m) => m,
                Err(p) => {
                    rep.violation("C17", format!("text-conv-panic:{}", p.location), format!("converting a text of {} bytes to the UTF-8 field panicked: {}", s.len(), p.message), s.len() as u64, json!({"kind":"text_conv","n":255,"chars":s.chars().map(|c| c as u32).collect::<Vec<_>>()}));
                    continue;
                }
            };
            // what the field holds after conversion decides whether the encoder must refuse
            let held = ref_utf8_prefix(s, 255);
            let must_refuse = held.chars().count() > 127 || held.len() > 255;
            roundtrip(&mut rep, &m, &format!("msg 1029 with text of {} chars / {} bytes", held.chars().count(), held.len()), must_refuse);
            rep.states += 1;
        }
        // frames whose text bytes are every 2-byte sequence, and the classic malformed classes
        let mut seqs: Vec<Vec<u8>> = vec![];
        for a in 0..=255u8 {
            for b in 0..=255u8 {
                seqs.push(vec![a, b]);
            }
        }
        for s in [
            vec![0xC0u8, 0x80], vec![0xE0, 0x80, 0x80], vec![0xF0, 0x80, 0x80, 0x80], // overlong
            vec![0xED, 0xA0, 0x80], vec![0xED, 0xBF, 0xBF], // surrogates
            vec![0xE2, 0x82], vec![0xF0, 0x9F, 0x98], vec![0xE2], vec![0xF0, 0x9F], // truncated
            vec![0xF4, 0x90, 0x80, 0x80], vec![0xF5, 0x80, 0x80, 0x80], vec![0xFF], // > U+10FFFF / invalid lead
            vec![0x41, 0xE2, 0x82, 0xAC, 0xF0, 0x9F, 0x98, 0x80], // valid
            vec![0x80], vec![0xBF, 0x41],
        ] {
            seqs.push(s);
        }
        // long texts (up to the 255-byte maximum) ending in an unfinished / malformed multi-byte character
        for total in [3usize, 64, 127, 128, 254, 255] {
            for tail in [vec![0xC3u8], vec![0xE2, 0x82], vec![0xE2], vec![0xF0, 0x9F, 0x98], vec![0xF0, 0x9F], vec![0xF0], vec![0x80], vec![0xC3, 0xA9], vec![0xE2, 0x82, 0xAC], vec![0xF0, 0x9F, 0x98, 0x80], vec![0xED, 0xA0, 0x80], vec![0xFF]] {
                if tail.len() <= total {
                    let mut v = vec![0x41u8; total - tail.len()];
                    v.extend_from_slice(&tail);
                    seqs.push(v.clone());
                    // and the same defect in the middle
                    let mut w = vec![0x41u8; (total - tail.len()) / 2];
                    w.extend_from_slice(&tail);
                    w.resize(total, 0x42);
                    seqs.push(w);
                }
            }
        }
        for a in [0xE0u8, 0xE1, 0xED, 0xEE, 0xF0, 0xF1, 0xF4] {
            for b in (0x70..=0xC5u8).step_by(1) {
                seqs.push(vec![a, b, 0x80]);
                seqs.push(vec![a, b, 0x80, 0x80]);
            }
        }
        // character counter: the true number of characters when the text is valid UTF-8 (a decoder may
        // legitimately cross-check it); for invalid text it is only a claim of the sender, so several claims
        // are tried (0, 1, "as many as bytes", 127)
        let mut cases: Vec<(&Vec<u8>, u64)> = vec![];
        for bytes in seqs.iter() {
            if utf8_valid(bytes) {
                cases.push((bytes, String::from_utf8_lossy(bytes).chars().count() as u64));
            } else {
                let mut claims = vec![1u64, 0, bytes.len() as u64, bytes.len() as u64 - 1, 127];
                claims.sort();
                claims.dedup();
                for c in claims {
                    cases.push((bytes, c));
                }
            }
        }
        let parts = par_shards(nsh, |sh| {
            let mut rep = Report::new();
            for (i, (bytes, nchars)) in cases.iter().enumerate() {
                if i % nsh != sh {
                    continue;
                }
                let (bytes, nchars) = (*bytes, *nchars);
                // harness-written 1029 frame: 12 number, 12 station, 16 mjd, 17 seconds, 7 chars, 8 bytes, text
                let mut w = BitW::new();
                w.put(1029, 12);
                w.put(0, 12 + 16 + 17);
                if nchars > 127 {
                    continue;
                }
                w.put(nchars, 7);
                w.put(bytes.len() as u64, 8);
                for b in bytes {
                    w.put(*b as u64, 8);
                }
                let f = make_frame(&w.to_bytes());
                rep.states += 1;
                rep.transitions += 1;
                rep.traces += 1;
                let valid = utf8_valid(bytes);
                let r = catch(|| MessageFrame::new(&f).map(|fr| fr.get_message()).unwrap_or(Message::Corrupt));
                match r {
                    Err(p) => rep.violation("C17", format!("1029-frame:panic:{}", p.location), format!("1029 frame with text bytes {:02x?} panics: {}", bytes, p.message), bytes.len() as u64, json!({"kind":"frame_decode","frame":hex(&f)})),
                    Ok(Message::Msg1029(t)) => {
                        let s: &str = &t.text_str;
                        if !valid {
                            rep.violation("C17", "1029-frame:invalid-utf8-accepted".into(), format!("1029 frame with invalid UTF-8 {:02x?} decodes to a typed message", bytes), bytes.len() as u64, json!({"kind":"frame_decode","frame":hex(&f)}));
                        } else if s.as_bytes() != &bytes[..] {
                            rep.violation("C17", "1029-frame:text-changed".into(), format!("1029 frame with text bytes {:02x?} decodes to text {:02x?}", bytes, s.as_bytes()), bytes.len() as u64, json!({"kind":"frame_decode","frame":hex(&f)}));
                        } else {
                            rep.outcome("1029-frame-valid-utf8");
                        }
                    }
                    Ok(Message::Corrupt) => {
                        if valid {
                            rep.violation("C17", "1029-frame:valid-utf8-rejected".into(), format!("1029 frame with valid UTF-8 {:02x?} decodes to Corrupt", bytes), bytes.len() as u64, json!({"kind":"frame_decode","frame":hex(&f)}));
                        } else {
                            rep.outcome("1029-frame-invalid-utf8->Corrupt");
                        }
                    }
                    Ok(other) => rep.violation("C17", "1029-frame:other".into(), format!("1029 frame decodes to {}", outcome_class(&other)), bytes.len() as u64, json!({"kind":"frame_decode","frame":hex(&f)})),
                }
            }
            rep
        });
        for p in parts {
            rep.merge(p);
        }
    }
    rep.distinct_nontrivial = rep.states;
    rep.sample(json!({"conversion":"Df88591String<7> / ArrayString<7>","input":"U+0041 U+0000 U+00E9 U+20AC U+1F600","expect":"bytes 41 A4 E9 A4 A4 / longest whole-character prefix within 7 bytes"}));
    rep.sample(json!({"frame":"1029 with text bytes C0 80","expect":"Corrupt"}));
    let meta = Meta {
        rule: "conversions: every one of the 1 112 064 characters alone and between two 'A's; every string over {A, NUL, U+A4, U+E9, U+FF, U+100, U+20AC, U+1F600, U+10041, U+2000B} up to maxlen into Df88591String<N> and ArrayString<N>, N in {7,31,255}; every string over {A, U+E9, U+20AC, U+1F600} up to length 9/10 for N=7; 'A'^k (k around the capacity) + every 3-character tail for N=31,255; compared with the reference Latin-1 mapping (first N characters, 1..255 -> byte, else A4), the longest whole-character prefix, and a hand-written UTF-8 validator. Messages 1007, 1008, 1021, 1022, 1033, 1300-1302 round-tripped with descriptor strings of every length 0..=31 (ASCII / high Latin-1 / mixed); 1029 with texts around 127 characters and 255 bytes (must be refused beyond) and harness-written 1029 frames whose text is every 2-byte sequence plus malformed UTF-8 classes (must be Corrupt iff invalid). states = strings / messages / frames".into(),
        exhaustive: true,
        bounds: json!({"alphabet_maxlen": maxlen, "n7_maxlen": ctx.tier.pick(9,10)}),
        assumptions: vec![],
    };
    (rep, meta)
}

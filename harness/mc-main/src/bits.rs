//! E-bits (C07): (kind, carrier, width, offset, value, background) enumeration against the real
//! Assembler::put / Parser::parse (hook H1), compared with the BitW reference writer.

use mc_core::*;
use rtcm_rs::rtcm_error::RtcmError;
use rtcm_rs::verif::bit_value::*;
use rtcm_rs::verif::{Assembler, Parser};
use serde_json::json;
use std::collections::BTreeSet;

#[derive(Clone, Copy, PartialEq, Eq, Debug)]
enum K {
    U,
    I,
    SM,
}

const BUF: usize = 16;

fn range(kind: K, w: usize) -> (i128, i128) {
    match kind {
        K::U => (0, (1i128 << w) - 1),
        K::I => (-(1i128 << (w - 1)), (1i128 << (w - 1)) - 1),
        K::SM => (-((1i128 << (w - 1)) - 1), (1i128 << (w - 1)) - 1),
    }
}

/// reference bits of a representable value
fn ref_bits(kind: K, w: usize, v: i128) -> Vec<bool> {
    let mut b = BitW::new();
    match kind {
        K::U => b.put(v as u64, w),
        K::I => b.put_i(v as i64, w),
        K::SM => b.put_sm(v as i64, w),
    }
    b.bits
}

fn values(kind: K, carrier: usize, w: usize, full_w: usize) -> (Vec<i128>, Vec<i128>) {
    let (lo, hi) = range(kind, w);
    let mut inr: BTreeSet<i128> = BTreeSet::new();
    let mut out: BTreeSet<i128> = BTreeSet::new();
    if w <= full_w {
        let mut v = lo;
        while v <= hi {
            inr.insert(v);
            v += 1;
        }
    }
    let (clo, chi): (i128, i128) = match kind {
        K::U => (0, (1i128 << carrier) - 1),
        _ => (-(1i128 << (carrier - 1)), (1i128 << (carrier - 1)) - 1),
    };
    let mut cands: Vec<i128> = vec![0, 1, 2, -1, -2, lo, lo + 1, hi, hi - 1, hi + 1, lo - 1, clo, chi, clo + 1, chi - 1];
    for b in 0..carrier {
        cands.push(1i128 << b);
        cands.push(-(1i128 << b));
        cands.push(!(1i128 << b) & ((1i128 << carrier) - 1));
        cands.push((1i128 << b) - 1);
        cands.push(-((1i128 << b) - 1));
    }
    let aa: i128 = 0xAAAA_AAAA_AAAA_AAAAu64 as i128;
    let fives: i128 = 0x5555_5555_5555_5555u64 as i128;
    for m in [aa, fives, 0x0123_4567_89AB_CDEF, 0xFEDC_BA98_7654_3210u64 as i128] {
        cands.push(m & ((1i128 << w) - 1));
        cands.push(m & ((1i128 << (w.max(2) - 1)) - 1));
        cands.push(-(m & ((1i128 << (w.max(2) - 1)) - 1)));
        cands.push(m & ((1i128 << carrier) - 1));
    }
    for c in cands {
        if c < clo || c > chi {
            continue;
        }
        if c >= lo && c <= hi {
            inr.insert(c);
        } else {
            out.insert(c);
        }
    }
    (inr.into_iter().collect(), out.into_iter().collect())
}

macro_rules! kind_impl {
    ($fname:ident, $it:ident, $pt:ty, $kind:expr, $carrier:literal) => {
        fn $fname(tier: Tier, w_only: usize, rep: &mut Report) {
            let kind: K = $kind;
            let carrier: usize = $carrier;
            let full_w = tier.pick(12usize, 16usize);
            let max_off = tier.pick(23usize, 63usize);
            let bgs: [[u8; 2]; 3] = [[0x00, 0x00], [0xFF, 0xFF], [0xA5, 0x5A]];
            for w in w_only..=w_only.min(carrier) {
                watch_enter(0x0700_0000 + ((carrier as u64) << 8) + w as u64);
                let (inr, out) = values(kind, carrier, w, full_w);
                let mut offsets: Vec<usize> = (0..=max_off).filter(|o| o + w <= BUF * 8).collect();
                for o in [BUF * 8 - w, (BUF * 8 - w).saturating_sub(1), (BUF * 8 - w).saturating_sub(7)] {
                    if !offsets.contains(&o) {
                        offsets.push(o);
                    }
                }
                // offsets that overflow: one bit beyond, and far beyond
                let over: Vec<usize> = vec![BUF * 8 - w + 1, BUF * 8 - w + 2, BUF * 8, BUF * 8 + 5];
                rep.states += (offsets.len() * 3) as u64;
                for &off in &offsets {
                    watch_enter(0x0700_0000 + ((carrier as u64) << 8) + w as u64);
                    for bg in &bgs {
                        let mut base = [0u8; BUF];
                        for (i, b) in base.iter_mut().enumerate() {
                            *b = bg[i % 2];
                        }
                        for &v in &inr {
                            rep.transitions += 2;
                            let mut buf = base;
                            let r = catch(|| {
                                let mut asm = Assembler::new(&mut buf, off);
                                let r = asm.put::<$it>(v as $pt, w);
                                (r.is_ok(), asm.offset())
                            });
                            let desc = || json!({"kind":"bitfield","it":stringify!($it),"width":w,"offset":off,"value":v.to_string(),"background":hex(&base[..2])});
                            match r {
                                Err(p) => {
                                    rep.violation("C07", format!("{}:put-panic:{}", stringify!($it), p.location), format!("put::<{}>({}, {}) at bit {} panicked: {}", stringify!($it), v, w, off, p.message), w as u64, desc());
                                    continue;
                                }
                                Ok((ok, cur)) => {
                                    if !ok || cur != off + w {
                                        rep.violation("C07", format!("{}:put-status", stringify!($it)), format!("put::<{}>({}, {}) at bit {}: ok={} cursor={}", stringify!($it), v, w, off, ok, cur), w as u64, desc());
                                        continue;
                                    }
                                }
                            }
                            // expected buffer
                            let mut exp = base;
                            for (i, bit) in ref_bits(kind, w, v).iter().enumerate() {
                                set_bit(&mut exp, off + i, *bit);
                            }
                            if buf != exp {
                                let inside = (0..w).any(|i| get_bit(&buf, off + i) != get_bit(&exp, off + i));
                                rep.violation("C07", format!("{}:put-bits:{}", stringify!($it), if inside { "field" } else { "outside" }),
                                    format!("put::<{}>({}, {}) at bit {}: buffer {} expected {}", stringify!($it), v, w, off, hex(&buf), hex(&exp)), w as u64, desc());
                                continue;
                            }
                            // read back
                            let r = catch(|| {
                                let mut par = Parser::new(&buf, off);
                                let r = par.parse::<$it>(w);
                                (r.map(|x| x as i128).map_err(|e| format!("{:?}", e)), par.offset())
                            });
                            match r {
                                Err(p) => rep.violation("C07", format!("{}:parse-panic:{}", stringify!($it), p.location), format!("parse::<{}>({}) at bit {} panicked: {}", stringify!($it), w, off, p.message), w as u64, desc()),
                                Ok((Ok(x), cur)) if x == v && cur == off + w => {}
                                Ok((x, cur)) => rep.violation("C07", format!("{}:parse-value", stringify!($it)), format!("parse::<{}>({}) at bit {} returned {:?} cursor {} after writing {}", stringify!($it), w, off, x, cur, v), w as u64, desc()),
                            }
                            rep.traces += 1;
                        }
                        rep.outcome_n("representable-value-roundtrip", inr.len() as u64);
                        // values outside the representable range: only 'nothing else touched'
                        for &v in &out {
                            rep.transitions += 1;
                            let mut buf = base;
                            let r = catch(|| {
                                let mut asm = Assembler::new(&mut buf, off);
                                let r = asm.put::<$it>(v as $pt, w);
                                (r.is_ok(), asm.offset())
                            });
                            match r {
                                Err(_) => rep.outcome("out-of-range-value-panics(not judged by C07)"),
                                Ok((false, _)) => {
                                    // refusing a value that does not fit is allowed (the statement promises nothing here);
                                    // the buffer must then be untouched outside the field all the same
                                    let outside_same = (0..BUF * 8).all(|i| (i >= off && i < off + w) || get_bit(&buf, i) == get_bit(&base, i));
                                    if !outside_same {
                                        rep.violation("C07", format!("{}:out-of-range-refused-but-touched", stringify!($it)), format!("put::<{}>({}, {}) at bit {} (value not representable) returned an error but changed bits outside the field", stringify!($it), v, w, off), w as u64,
                                            json!({"kind":"bitfield","it":stringify!($it),"width":w,"offset":off,"value":v.to_string(),"background":hex(&base[..2])}));
                                    }
                                    rep.outcome("out-of-range-value-refused");
                                }
                                Ok((ok, cur)) => {
                                    let outside_same = (0..BUF * 8).all(|i| (i >= off && i < off + w) || get_bit(&buf, i) == get_bit(&base, i));
                                    if !ok || cur != off + w || !outside_same {
                                        rep.violation("C07", format!("{}:out-of-range-touches-outside", stringify!($it)), format!("put::<{}>({}, {}) at bit {} (value not representable): ok={} cursor={} other-bits-unchanged={}", stringify!($it), v, w, off, ok, cur, outside_same), w as u64,
                                            json!({"kind":"bitfield","it":stringify!($it),"width":w,"offset":off,"value":v.to_string(),"background":hex(&base[..2])}));
                                    }
                                    rep.outcome("out-of-range-value-contained");
                                }
                            }
                        }
                    }
                }
                // overflowing accesses
                for &off in &over {
                    for bg in &bgs {
                        let mut base = [0u8; BUF];
                        for (i, b) in base.iter_mut().enumerate() {
                            *b = bg[i % 2];
                        }
                        rep.transitions += 2;
                        let mut buf = base;
                        let r = catch(|| {
                            let mut asm = Assembler::new(&mut buf, off);
                            let r = asm.put::<$it>(1 as $pt, w);
                            (matches!(r, Err(RtcmError::BufferOverflow)), asm.offset())
                        });
                        let desc = || json!({"kind":"bitfield","it":stringify!($it),"width":w,"offset":off,"value":"1","background":hex(&base[..2])});
                        match r {
                            Ok((true, cur)) if cur == off && buf == base => rep.outcome("overflow-write-refused"),
                            other => rep.violation("C07", format!("{}:overflow-write", stringify!($it)), format!("put::<{}>(1, {}) at bit {} of a {}-bit buffer: {:?}, buffer changed: {}", stringify!($it), w, off, BUF * 8, other, buf != base), w as u64, desc()),
                        }
                        let r = catch(|| {
                            let mut par = Parser::new(&base, off);
                            let r = par.parse::<$it>(w);
                            (matches!(r, Err(RtcmError::BufferOverflow)), par.offset())
                        });
                        match r {
                            Ok((true, cur)) if cur == off => rep.outcome("overflow-read-refused"),
                            other => rep.violation("C07", format!("{}:overflow-read", stringify!($it)), format!("parse::<{}>({}) at bit {} of a {}-bit buffer: {:?}", stringify!($it), w, off, BUF * 8, other), w as u64, desc()),
                        }
                    }
                }
            }
            watch_leave();
        }
    };
}

kind_impl!(k_u8, U8, u8, K::U, 8);
kind_impl!(k_u16, U16, u16, K::U, 16);
kind_impl!(k_u32, U32, u32, K::U, 32);
kind_impl!(k_u64, U64, u64, K::U, 64);
kind_impl!(k_i8, I8, i8, K::I, 8);
kind_impl!(k_i16, I16, i16, K::I, 16);
kind_impl!(k_i32, I32, i32, K::I, 32);
kind_impl!(k_i64, I64, i64, K::I, 64);
kind_impl!(k_sm8, SM8, i8, K::SM, 8);
kind_impl!(k_sm16, SM16, i16, K::SM, 16);
kind_impl!(k_sm32, SM32, i32, K::SM, 32);
kind_impl!(k_sm64, SM64, i64, K::SM, 64);

pub fn c07(ctx: &Ctx) -> (Report, Meta) {
    let fns: Vec<(&str, fn(Tier, usize, &mut Report))> = vec![
        ("U64", k_u64), ("I64", k_i64), ("SM64", k_sm64), ("U32", k_u32), ("I32", k_i32), ("SM32", k_sm32),
        ("U16", k_u16), ("I16", k_i16), ("SM16", k_sm16), ("U8", k_u8), ("I8", k_i8), ("SM8", k_sm8),
    ];
    let tier = ctx.tier;
    let mut tasks = vec![];
    for w in (1..=64usize).rev() {
        for (i, (name, _)) in fns.iter().enumerate() {
            let carrier: usize = name.trim_start_matches(|c: char| c.is_alphabetic()).parse().unwrap();
            if w <= carrier {
                tasks.push((i, w));
            }
        }
    }
    // widest value sets first (w == full width) for balance
    let fw = tier.pick(12usize, 16usize);
    tasks.sort_by_key(|(_, w)| if *w <= fw { fw - *w } else { 100 });
    let parts = par_shards(tasks.len(), |t| {
        let mut rep = Report::new();
        let (i, w) = tasks[t];
        (fns[i].1)(tier, w, &mut rep);
        rep
    });
    let mut rep = Report::new();
    for p in parts {
        rep.merge(p);
    }
    rep.distinct_nontrivial = rep.traces;
    rep.sample(json!({"it":"SM16","width":12,"offset":12,"value":-1820,"background":"a55a","expect":"sign bit then 11-bit magnitude, all other bits unchanged, parse returns -1820"}));
    rep.sample(json!({"it":"U32","width":32,"offset":97,"value":1,"expect":"BufferOverflow, buffer and cursor unchanged"}));
    let meta = Meta {
        rule: "kinds {unsigned, two's complement, sign-magnitude} x carriers {8,16,32,64} x widths 1..=carrier x bit offsets 0..=max_off plus the offsets ending at / just before the end of a 16-byte buffer x backgrounds {00, FF, A5/5A} x values (all 2^w for w <= full_w; 0, +-1, +-2, min, max, one-hot, one-cold, 2^b-1, alternating patterns above). put: buffer equals the BitW reference (MSB first) with all other bits unchanged, cursor +w; parse returns the written value. Non-representable values: only 'other bits unchanged'. Overflowing accesses: BufferOverflow, buffer and cursor unchanged. states = (kind, width, offset, background) combinations; transitions = put/parse calls".into(),
        exhaustive: true,
        bounds: json!({"full_value_width": ctx.tier.pick(12, 16), "max_offset": ctx.tier.pick(23, 63), "buffer_bytes": BUF}),
        assumptions: vec![],
    };
    (rep, meta)
}

pub fn replay(r: &serde_json::Value) -> Option<String> {
    let it = r["it"].as_str()?;
    let w = r["width"].as_u64()? as usize;
    let off = r["offset"].as_u64()? as usize;
    let v: i128 = r["value"].as_str()?.parse().ok()?;
    let bg = unhex(r["background"].as_str()?);
    let mut base = [0u8; BUF];
    for (i, b) in base.iter_mut().enumerate() {
        *b = bg[i % 2];
    }
    macro_rules! go {
        ($it:ident, $pt:ty) => {{
            let mut buf = base;
            let put = catch(|| {
                let mut asm = Assembler::new(&mut buf, off);
                let r = asm.put::<$it>(v as $pt, w);
                (format!("{:?}", r), asm.offset())
            });
            let parse = catch(|| {
                let mut par = Parser::new(&buf, off);
                let r = par.parse::<$it>(w);
                (format!("{:?}", r), par.offset())
            });
            format!("background {}\nput::<{}>({}, {}) at bit {} -> {:?}\nbuffer     {}\nparse -> {:?}", hex(&base), it, v, w, off, put, hex(&buf), parse)
        }};
    }
    Some(match it {
        "U8" => go!(U8, u8),
        "U16" => go!(U16, u16),
        "U32" => go!(U32, u32),
        "U64" => go!(U64, u64),
        "I8" => go!(I8, i8),
        "I16" => go!(I16, i16),
        "I32" => go!(I32, i32),
        "I64" => go!(I64, i64),
        "SM8" => go!(SM8, i8),
        "SM16" => go!(SM16, i16),
        "SM32" => go!(SM32, i32),
        "SM64" => go!(SM64, i64),
        _ => return None,
    })
}

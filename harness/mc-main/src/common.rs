//! Helpers shared by the engines of `mc`.

use mc_core::*;
use rtcm_rs::prelude::*;
use std::collections::BTreeSet;

pub fn repo_dir() -> String {
    std::env::var("VERIF_REPO").unwrap_or_else(|_| "/repo".into())
}

/// The msgNNNN features listed under `all_msgs` in /repo/Cargo.toml (parsed at run time).
pub fn feature_numbers() -> BTreeSet<u16> {
    let s = std::fs::read_to_string(format!("{}/Cargo.toml", repo_dir())).expect("read Cargo.toml");
    let mut out = BTreeSet::new();
    let mut in_all = false;
    for line in s.lines() {
        let t = line.trim();
        if t.starts_with("all_msgs") {
            in_all = true;
        }
        if in_all {
            let mut rest = t;
            while let Some(p) = rest.find("\"msg") {
                let r = &rest[p + 4..];
                let num: String = r.chars().take_while(|c| c.is_ascii_digit()).collect();
                if let Ok(n) = num.parse::<u16>() {
                    out.insert(n);
                }
                rest = &r[num.len()..];
            }
            if t.contains(']') {
                break;
            }
        }
    }
    out
}

/// All testdata frames of the repository: (message number, index, bytes)
pub fn testdata_frames() -> Vec<(u16, u32, Vec<u8>)> {
    let dir = format!("{}/testdata", repo_dir());
    let mut out = vec![];
    let Ok(rd) = std::fs::read_dir(&dir) else { return out };
    let mut names: Vec<String> = rd.filter_map(|e| e.ok()).map(|e| e.file_name().to_string_lossy().to_string()).collect();
    names.sort();
    for n in names {
        if let Some(stem) = n.strip_suffix(".rtcm") {
            if let Some(rest) = stem.strip_prefix("msg") {
                let mut it = rest.split('_');
                if let (Some(a), Some(b)) = (it.next(), it.next()) {
                    if let (Ok(num), Ok(idx)) = (a.parse::<u16>(), b.parse::<u32>()) {
                        if let Ok(bytes) = std::fs::read(format!("{}/{}", dir, n)) {
                            out.push((num, idx, bytes));
                        }
                    }
                }
            }
        }
    }
    out
}

/// What MessageFrame::new says about a slice, in comparable form.
#[derive(Debug, Clone, PartialEq, Eq)]
pub enum FrameObs {
    Ok { frame_len: usize, data_len: usize, crc: u32, number: Option<u16>, data_ok: bool, frame_ok: bool },
    Incomplete,
    NotValid,
    OtherErr(String),
}

pub fn observe_frame(s: &[u8]) -> FrameObs {
    match MessageFrame::new(s) {
        Ok(f) => {
            let fl = f.frame_len();
            let dl = f.data_len();
            FrameObs::Ok {
                frame_len: fl,
                data_len: dl,
                crc: f.crc(),
                number: f.message_number(),
                data_ok: s.len() >= 3 + dl && f.data() == &s[3..3 + dl],
                frame_ok: s.len() >= fl && f.frame_data() == &s[..fl],
            }
        }
        Err(RtcmError::Incomplete) => FrameObs::Incomplete,
        Err(RtcmError::NotValid) => FrameObs::NotValid,
        Err(e) => FrameObs::OtherErr(format!("{:?}", e)),
    }
}

/// (consumed, Some((start,end))) from the real scanner; start/end are derived from
/// consumed and frame_len as the statement of C05 says they must be.
pub fn real_scan(buf: &[u8]) -> (usize, Option<(usize, usize, Vec<u8>)>) {
    let (c, f) = next_msg_frame(buf);
    match f {
        None => (c, None),
        Some(f) => {
            let fl = f.frame_len();
            let start = c.wrapping_sub(fl);
            (c, Some((start, c, f.frame_data().to_vec())))
        }
    }
}

pub fn outcome_class(m: &Message) -> &'static str {
    match m {
        Message::Empty => "Empty",
        Message::Corrupt => "Corrupt",
        Message::MsgNotSupported(_) => "MsgNotSupported",
        _ => "typed",
    }
}

pub fn panic_key(p: &PanicRec, extra: &str) -> String {
    format!("panic:{}:{}", p.location, extra)
}

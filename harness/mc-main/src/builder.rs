//! C12 (E-builder): explicit-state search over histories of build_message calls on one
//! MessageBuilder.  State = (buffer[1029], has_run) observed through hook H3 (used for
//! deduplication only); action = build(p) for p in the pool; the oracle uses the public API only:
//! in every reachable state, every target builds to the same result as on a fresh builder.

use crate::common::*;
use mc_core::*;
use rtcm_rs::msg::*;
use rtcm_rs::prelude::*;
use rtcm_rs::util::{ArrayString, Df88591String};
use serde_json::json;
use std::collections::HashMap;

fn decode_frame(f: &[u8]) -> Message {
    MessageFrame::new(f).map(|fr| fr.get_message()).unwrap_or(Message::Corrupt)
}

fn zero_payload(n: u16) -> Vec<u8> {
    let mut z = vec![0u8; 1023];
    z[0] = (n >> 4) as u8;
    z[1] = ((n & 0xf) << 4) as u8;
    z
}

/// harness-written payload with a count field set and the rest ones (maximum-length lists)
fn with_bits(n: u16, fill: u8, edits: &[(usize, usize, u64)]) -> Message {
    let mut p = vec![fill; 1023];
    p[0] = (n >> 4) as u8;
    p[1] = (p[1] & 0x0f) | (((n & 0xf) << 4) as u8);
    for (o, l, v) in edits {
        set_bits(&mut p, *o, *l, *v);
    }
    decode_frame(&make_frame(&p))
}

pub fn pool() -> Vec<(String, Message)> {
    let mut out: Vec<(String, Message)> = vec![];
    for (name, f) in crate::decode::base_messages() {
        out.push((name, decode_frame(&f)));
    }
    // no wire form
    out.push(("Empty".into(), Message::Empty));
    out.push(("Corrupt".into(), Message::Corrupt));
    out.push(("MsgNotSupported".into(), Message::MsgNotSupported(rtcm_rs::msg::message::MsgNotSupportedT { message_number: 1018 })));
    // maximum-length messages (count fields at capacity, body all ones / all zero)
    for fill in [0xFFu8, 0x00] {
        out.push((format!("1057x60/{:02x}", fill), with_bits(1057, fill, &[(12 + 20 + 4 + 1 + 1 + 4 + 16 + 4, 6, 60)])));
        out.push((format!("1058x63/{:02x}", fill), with_bits(1058, fill, &[(12 + 20 + 4 + 1 + 4 + 16 + 4, 6, 63)])));
        out.push((format!("1060x39/{:02x}", fill), with_bits(1060, fill, &[(12 + 20 + 4 + 1 + 1 + 4 + 16 + 4, 6, 39)])));
        out.push((format!("1004x31/{:02x}", fill), with_bits(1004, fill, &[(12 + 12 + 30 + 1, 5, 31)])));
    }
    // MSM7 with 64 cells (64 satellites x 1 signal, 8 x 8)
    let p = crate::msm::spec_payload(1077, &(1..=64).collect::<Vec<u8>>(), &[2], &(1..=64).map(|s| (s, 2)).collect::<Vec<_>>(), 11);
    out.push(("1077 64x1".into(), decode_frame(&make_frame(&p))));
    let sats: Vec<u8> = (1..=8).collect();
    let sigs: Vec<u8> = SIG_GPS[..8].iter().map(|e| e.0).collect();
    let cells: Vec<(u8, u8)> = sats.iter().flat_map(|s| sigs.iter().map(move |g| (*s, *g))).collect();
    let p = crate::msm::spec_payload(1077, &sats, &sigs, &cells, 12);
    out.push(("1077 8x8".into(), decode_frame(&make_frame(&p))));
    let p = crate::msm::spec_payload(1127, &[5], &[2], &[(5, 2)], 13);
    out.push(("1127 1x1".into(), decode_frame(&make_frame(&p))));
    // 1059 with 390 entries; 1059 with a satellite id out of range (fails inside the list)
    {
        let mut t = Msg1059T::default();
        for i in 0..390usize {
            t.biases.push(Msg1059CodeBias { satellite_id: (i / 12) as u8, signal_id: GpsSigId::new([1, 1, 1, 2, 2, 2, 2, 2, 2, 2, 5, 5][i % 12], ['C', 'P', 'W', 'C', 'D', 'S', 'L', 'X', 'P', 'W', 'I', 'Q'][i % 12]), bias_m: 0.01 * (i as f32) });
        }
        out.push(("1059x390".into(), Message::Msg1059(t.clone())));
        t.biases[389].satellite_id = 64;
        out.push(("1059 sat 64 (fails in the list)".into(), Message::Msg1059(t)));
    }
    // satellites whose entries all carry a signal without an SSR id (they are announced with a bias count of zero),
    // at the start, in the middle and at the end of the list
    {
        let ok = |s: u8, b: u8, a: char, v: f32| Msg1059CodeBias { satellite_id: s, signal_id: GpsSigId::new(b, a), bias_m: v };
        for (name, l) in [
            ("1059 one satellite without encodable signal", vec![ok(3, 9, 'Z', 1.0)]),
            ("1059 zero-bias satellite first", vec![ok(1, 9, 'Z', 1.0), ok(3, 1, 'C', -0.5), ok(5, 2, 'W', 0.25)]),
            ("1059 zero-bias satellite in the middle", vec![ok(1, 1, 'C', -0.5), ok(3, 9, 'Z', 1.0), ok(3, 1, 'S', 1.0), ok(5, 2, 'W', 0.25)]),
            ("1059 zero-bias satellite last", vec![ok(1, 1, 'C', -0.5), ok(5, 2, 'W', 0.25), ok(63, 9, 'Z', 1.0)]),
            ("1059 only zero-bias satellites", vec![ok(0, 9, 'Z', 1.0), ok(31, 1, 'S', 1.0), ok(63, 0, '\0', 1.0)]),
        ] {
            let mut t = Msg1059T::default();
            for e in l {
                t.biases.push(e);
            }
            out.push((name.into(), Message::Msg1059(t)));
        }
        let okg = |s: u8, b: u8, a: char, v: f32| Msg1065CodeBias { satellite_id: s, signal_id: GloSigId::new(b, a), bias_m: v };
        for (name, l) in [
            ("1065 zero-bias satellite first", vec![okg(1, 9, 'Z', 1.0), okg(3, 1, 'C', -0.5), okg(5, 2, 'P', 0.25)]),
            ("1065 zero-bias satellite in the middle", vec![okg(1, 1, 'C', -0.5), okg(3, 9, 'Z', 1.0), okg(5, 2, 'P', 0.25)]),
            ("1065 only zero-bias satellites", vec![okg(0, 9, 'Z', 1.0), okg(31, 7, 'Q', 1.0)]),
        ] {
            let mut t = Msg1065T::default();
            for e in l {
                t.biases.push(e);
            }
            out.push((name.into(), Message::Msg1065(t)));
        }
    }
    // near-maximum frames of many different lengths: 1059 with 390 negative biases spread over s satellites
    // (payload = 73 + 11 s + 7410 bits: 1015..1022 bytes for s = 54..63), and 1065 likewise
    for s_cnt in 50..=63usize {
        let mut t = Msg1059T::default();
        for i in 0..390usize {
            let sat = (i % s_cnt) as u8;
            t.biases.push(Msg1059CodeBias { satellite_id: sat, signal_id: GpsSigId::new([1, 1, 1, 2, 2, 2, 2, 2, 2, 2, 5, 5][(i / s_cnt) % 12], ['C', 'P', 'W', 'C', 'D', 'S', 'L', 'X', 'P', 'W', 'I', 'Q'][(i / s_cnt) % 12]), bias_m: -0.01 });
        }
        out.push((format!("1059x390 over {} satellites", s_cnt), Message::Msg1059(t)));
    }
    // 1029 with 255 bytes (85 three-byte characters) and one that is refused after the header was written
    if let Message::Msg1029(t) = decode_frame(&make_frame(&zero_payload(1029)[..12])) {
        let mut a = t.clone();
        a.text_str = ArrayString::<255>::from(std::iter::repeat('\u{20ac}').take(85).collect::<String>().as_str());
        out.push(("1029 255 bytes".into(), Message::Msg1029(a)));
        let mut b = t.clone();
        b.text_str = ArrayString::<255>::from(std::iter::repeat('x').take(200).collect::<String>().as_str());
        out.push(("1029 200 chars (refused)".into(), Message::Msg1029(b)));
    }
    // messages failing late: a field below its bias near the end of the message
    if let Message::Msg1020(mut t) = decode_frame(&make_frame(&zero_payload(1020))) {
        t.glo_m_n4_year = 0;
        out.push(("1020 year 0 (fails at field 35)".into(), Message::Msg1020(t)));
    }
    if let Message::Msg1021(mut t) = decode_frame(&make_frame(&zero_payload(1021))) {
        t.source_name_str = Df88591String::<31>::from("late failure after the strings");
        t.b_t_m = Some(1.0);
        out.push(("1021 b_t below bias (fails late)".into(), Message::Msg1021(t)));
    }
    if let Message::Msg1300(mut t) = decode_frame(&make_frame(&zero_payload(1300))) {
        t.service_crs_name_str = Df88591String::<31>::from("ETRF2000 something");
        t.coordinate_epoch_year = Some(f32::NAN);
        out.push(("1300 NaN epoch (fails at the last field)".into(), Message::Msg1300(t)));
    }
    // legacy observation messages with 0..=12 default satellites (targets of many different,
    // mostly unaligned bit lengths), and GLONASS ones failing inside the k-th satellite
    // (frequency channel below its bias), i.e. aborting at many different bit positions
    macro_rules! legacy_family {
        ($v:ident, $t:ident, $s:ident) => {
            for n in 0..=12usize {
                let mut t = $t::default();
                for _ in 0..n {
                    t.satellites.push($s::default());
                }
                out.push((format!("{} x{} default satellites", stringify!($v), n), Message::$v(t)));
            }
        };
    }
    legacy_family!(Msg1001, Msg1001T, Msg1001Sat);
    legacy_family!(Msg1002, Msg1002T, Msg1002Sat);
    legacy_family!(Msg1003, Msg1003T, Msg1003Sat);
    legacy_family!(Msg1004, Msg1004T, Msg1004Sat);
    legacy_family!(Msg1009, Msg1009T, Msg1009Sat);
    legacy_family!(Msg1010, Msg1010T, Msg1010Sat);
    legacy_family!(Msg1011, Msg1011T, Msg1011Sat);
    legacy_family!(Msg1012, Msg1012T, Msg1012Sat);
    // decoded from an all-ones payload (every bit before the abort point is a one), last satellite unencodable
    macro_rules! glo_failing_family {
        ($v:ident, $num:literal, $max:expr) => {
            for n in 1..=$max {
                if let Message::$v(mut t) = with_bits($num, 0xFF, &[(12 + 12 + 27 + 1, 5, n as u64)]) {
                    let k = t.satellites.len();
                    if k > 0 {
                        t.satellites[k - 1].glo_satellite_freq_chan_number = -8;
                        out.push((format!("{} x{} all-ones, failing in the last satellite", stringify!($v), k), Message::$v(t)));
                    }
                }
            }
        };
    }
    glo_failing_family!(Msg1009, 1009, 12usize);
    glo_failing_family!(Msg1010, 1010, 8usize);
    glo_failing_family!(Msg1011, 1011, 8usize);
    glo_failing_family!(Msg1012, 1012, 8usize);
    // MSM failing after the header: unrecognised signal, satellite mismatch
    if let Some((_, m)) = out.iter().find(|(n, _)| n == "1077 8x8").cloned() {
        let mut a = m.clone();
        crate::msm::apply(&mut a, crate::msm::Op::SetCellSig(63, 9, 'Z'));
        out.push(("1077 unrecognised signal".into(), a));
        let mut b = m.clone();
        crate::msm::apply(&mut b, crate::msm::Op::RemoveSat(7));
        out.push(("1077 satellite mismatch".into(), b));
    }
    out
}

/// Deduplication key: the H3 view (buffer, has_run) plus a hash of the builder's whole in-memory
/// representation, so that private state added by a refactoring (a cache, a dirty mark) keeps states
/// apart.  Only ever used to decide which histories to extend, never for a verdict.
fn state_key(b: &MessageBuilder) -> u64 {
    let (buf, has_run) = b.verif_state();
    let h = fnv64_add(fnv64(&buf[..]), &[has_run as u8]);
    // SAFETY: reads size_of::<MessageBuilder>() bytes of a live, fully initialised value (all fields of the
    // current layout are integers/bools/arrays; padding, if any, only makes keys more distinct)
    let raw: &[u8] = unsafe { std::slice::from_raw_parts(b as *const MessageBuilder as *const u8, std::mem::size_of::<MessageBuilder>()) };
    fnv64_add(h, raw)
}

type Res = Result<Vec<u8>, String>;

fn build_on(b: &mut MessageBuilder, m: &Message) -> Result<Res, PanicRec> {
    catch(|| b.build_message(m).map(|x| x.to_vec()).map_err(|e| format!("{:?}", e)))
}

pub fn c12(ctx: &Ctx) -> (Report, Meta) {
    let pool = pool();
    let n = pool.len();
    let mut rep = Report::new();
    // fresh-builder results
    let fresh: Vec<Result<Res, PanicRec>> = pool.iter().map(|(_, m)| build_on(&mut MessageBuilder::new(), m)).collect();
    let n_ok = fresh.iter().filter(|r| matches!(r, Ok(Ok(_)))).count();
    let n_err = fresh.iter().filter(|r| matches!(r, Ok(Err(_)))).count();
    rep.outcome_n("pool-messages-building-ok", n_ok as u64);
    rep.outcome_n("pool-messages-failing", n_err as u64);
    rep.outcome_n("pool-messages-panicking(not judged by C12)", (n - n_ok - n_err) as u64);
    // BFS over reachable builder states; histories are replayed on fresh builders
    let cap_states = ctx.tier.pick(4_000usize, 200_000usize);
    let max_depth = ctx.tier.pick(3usize, 6usize);
    let mut states: Vec<Vec<usize>> = vec![vec![]]; // shortest history per state
    let mut seen: HashMap<u64, usize> = HashMap::new();
    seen.insert(state_key(&MessageBuilder::new()), 0);
    let mut frontier: Vec<usize> = vec![0];
    let mut depth = 0;
    let mut closed = false;
    while !frontier.is_empty() && depth < max_depth && states.len() < cap_states {
        depth += 1;
        let cur = frontier.clone();
        let states_ref = &states;
        let pool_ref = &pool;
        let fresh_ref = &fresh;
        let parts = par_shards(cur.len(), |ci| {
            let hist = &states_ref[cur[ci]];
            let mut rep = Report::new();
            let mut succ: Vec<(u64, usize)> = vec![];
            watch_enter(0x1200_0000 + ci as u64);
            for t in 0..n {
                // builder in state s
                let mut b = MessageBuilder::new();
                for &h in hist {
                    let _ = build_on(&mut b, &pool_ref[h].1);
                }
                let r = build_on(&mut b, &pool_ref[t].1);
                rep.transitions += 1;
                let same = match (&r, &fresh_ref[t]) {
                    (Ok(Ok(a)), Ok(Ok(b))) => a == b,
                    (Ok(Err(_)), Ok(Err(_))) => true,
                    (Err(_), Err(_)) => true,
                    _ => false,
                };
                if !same {
                    let hnames: Vec<&str> = hist.iter().map(|h| pool_ref[*h].0.as_str()).collect();
                    let what = match (&r, &fresh_ref[t]) {
                        (Ok(Ok(a)), Ok(Ok(b))) => {
                            let pos = a.iter().zip(b.iter()).position(|(x, y)| x != y).unwrap_or(a.len().min(b.len()));
                            format!("frames differ at byte {} (lengths {} / {})", pos, a.len(), b.len())
                        }
                        (a, b) => format!("used builder: {:?}, fresh builder: {:?}", a.as_ref().map(|r| r.as_ref().map(|f| f.len())), b.as_ref().map(|r| r.as_ref().map(|f| f.len()))),
                    };
                    rep.violation("C12", format!("history-dependent:{}", pool_ref[t].0), format!("after building {:?}, building '{}' differs from a fresh builder: {}", hnames, pool_ref[t].0, what), (hist.len() * 1000 + t) as u64,
                        json!({"kind":"builder_history","history":hnames,"target":pool_ref[t].0}));
                }
                succ.push((state_key(&b), t));
            }
            watch_leave();
            rep.traces += n as u64;
            (rep, succ)
        });
        let mut next = vec![];
        for (ci, (r, succ)) in parts.into_iter().enumerate() {
            rep.merge(r);
            for (k, t) in succ {
                if !seen.contains_key(&k) && states.len() < cap_states {
                    let mut h = states[cur[ci]].clone();
                    h.push(t);
                    seen.insert(k, states.len());
                    states.push(h);
                    next.push(states.len() - 1);
                }
            }
        }
        if next.is_empty() {
            closed = true;
        }
        frontier = next;
    }
    // histories of the shape [A, B, A] for every pair of pool messages (hidden per-message state such as a
    // cache of the last frame is not visible in the buffer, so state deduplication could merge them away)
    {
        let ok_idx: Vec<usize> = (0..n).filter(|i| matches!(fresh[*i], Ok(Ok(_)))).collect();
        let pool_ref = &pool;
        let fresh_ref = &fresh;
        let ok_ref = &ok_idx;
        let parts = par_shards(ok_idx.len(), |ai| {
            let a = ok_ref[ai];
            let mut rep = Report::new();
            watch_enter(0x1201_0000 + ai as u64);
            for bi in 0..n {
                let mut b = MessageBuilder::new();
                let _ = build_on(&mut b, &pool_ref[a].1);
                let _ = build_on(&mut b, &pool_ref[bi].1);
                let r = build_on(&mut b, &pool_ref[a].1);
                rep.transitions += 1;
                let same = matches!((&r, &fresh_ref[a]), (Ok(Ok(x)), Ok(Ok(y))) if x == y);
                if !same {
                    rep.violation("C12", format!("history-dependent-ABA:{}", pool_ref[a].0), format!("building '{}', then '{}', then '{}' again differs from a fresh builder", pool_ref[a].0, pool_ref[bi].0, pool_ref[a].0), (2000 + bi) as u64,
                        json!({"kind":"builder_history","history":[pool_ref[a].0, pool_ref[bi].0],"target":pool_ref[a].0}));
                }
            }
            watch_leave();
            rep.traces += n as u64;
            rep
        });
        for p in parts {
            rep.merge(p);
        }
        rep.outcome_n("A-B-A histories", (ok_idx.len() * n) as u64);
    }
    // length ladder: a previous frame of (nearly) every body length, full of one-bits, followed by a short target
    // whose zero fields and padding bits would show anything a length-dependent wipe leaves behind
    {
        let mut ladder: Vec<(String, Message)> = vec![];
        if let Message::Msg1029(t) = decode_frame(&make_frame(&zero_payload(1029)[..12])) {
            for bytes in 0..=255usize {
                let j = if bytes > 127 { (bytes - 127 + 1) / 2 } else { 0 };
                if 3 * j > bytes {
                    continue;
                }
                let k = bytes - 3 * j;
                let mut text: String = std::iter::repeat('\u{ffff}').take(j).collect();
                text.extend(std::iter::repeat('\u{7f}').take(k));
                let mut a = t.clone();
                a.text_str = ArrayString::<255>::from(text.as_str());
                ladder.push((format!("1029 with {} text bytes (body {} bytes)", bytes, 9 + bytes), Message::Msg1029(a)));
            }
        }
        let mut seen_len = std::collections::BTreeSet::new();
        for g in 1..=4usize {
            for sn in g..=64 / g {
                for c in sn..=sn * g {
                    let bits = 169 + sn * g + 36 * sn + 80 * c;
                    let body = (bits + 7) / 8;
                    if body > 1023 || !seen_len.insert(body) {
                        continue;
                    }
                    let sats: Vec<u8> = (1..=sn as u8).collect();
                    let sigs: Vec<u8> = SIG_GPS[..g].iter().map(|e| e.0).collect();
                    let mut cells: Vec<(u8, u8)> = (0..sn).map(|i| (sats[i], sigs[i % g])).collect();
                    'fill: for i in 0..sn {
                        for j in 0..g {
                            if cells.len() >= c {
                                break 'fill;
                            }
                            if !cells.contains(&(sats[i], sigs[j])) {
                                cells.push((sats[i], sigs[j]));
                            }
                        }
                    }
                    let p = crate::msm::spec_payload(1077, &sats, &sigs, &cells, 0xFFFF_FFFF_FFFF);
                    ladder.push((format!("1077 {}x{} with {} cells (body {} bytes)", sn, g, cells.len(), body), decode_frame(&make_frame(&p))));
                }
            }
        }
        // thorough: every pool message whose fresh frame is at most 64 bytes long is a target
        let short_ok = |i: usize| ctx.tier.thorough() && matches!(&fresh[i], Ok(Ok(f)) if f.len() <= 64);
        let targets: Vec<usize> = (0..n).filter(|i| {
            let nm = pool[*i].0.as_str();
            short_ok(*i) || ["Msg1001 x0 default satellites", "Msg1001 x1 default satellites", "Msg1001 x2 default satellites", "Msg1001 x3 default satellites", "Msg1004 x1 default satellites", "Msg1012 x1 default satellites", "1005:zero", "1029:zero", "1230:zero", "1127 1x1"].contains(&nm)
        }).collect();
        let mut rungs = 0u64;
        let mut lens = std::collections::BTreeSet::new();
        for (aname, a) in &ladder {
            let fa = build_on(&mut MessageBuilder::new(), a);
            let Ok(Ok(fa)) = fa else { continue };
            rungs += 1;
            lens.insert(fa.len());
            for &t in &targets {
                let mut b = MessageBuilder::new();
                let _ = build_on(&mut b, a);
                let r = build_on(&mut b, &pool[t].1);
                rep.transitions += 1;
                rep.traces += 1;
                let same = match (&r, &fresh[t]) {
                    (Ok(Ok(x)), Ok(Ok(y))) => x == y,
                    (Ok(Err(_)), Ok(Err(_))) => true,
                    (Err(_), Err(_)) => true,
                    _ => false,
                };
                if !same {
                    rep.violation("C12", format!("history-dependent-ladder:{}", pool[t].0), format!("after building '{}', building '{}' differs from a fresh builder", aname, pool[t].0), fa.len() as u64,
                        json!({"kind":"builder_ladder","previous":aname,"target":pool[t].0}));
                }
            }
        }
        rep.outcome_n("ladder-rungs (distinct previous frames)", rungs);
        rep.extra.insert("ladder_distinct_frame_lengths".into(), json!(lens.len()));
        rep.extra.insert("ladder_targets".into(), json!(targets.iter().map(|t| pool[*t].0.clone()).collect::<Vec<_>>()));
        if targets.len() < 4 || rungs < 200 {
            println!("MACHINERY-FAILURE: C12 length ladder degenerate ({} targets, {} rungs)", targets.len(), rungs);
            std::process::exit(2);
        }
    }
    rep.states = states.len() as u64;
    rep.distinct_nontrivial = states.len() as u64;
    rep.extra.insert("pool_size".into(), json!(n));
    rep.extra.insert("reachable_state_set_closed".into(), json!(closed));
    rep.extra.insert("depth_reached".into(), json!(depth));
    rep.outcome_n(if closed { "state-set-closed" } else { "state-set-not-closed-within-bounds" }, 1);
    if !closed {
        rep.notes.push(format!("the reachable state set did not close within depth {} / {} states; every history up to that depth was explored and compared, deeper histories were not (no verdict is derived from non-closure: state that no later build can observe is allowed to differ)", max_depth, cap_states));
    }
    rep.sample(json!({"history":["1004x31/ff","1300 NaN epoch (fails at the last field)"],"target":"1005:zero","oracle":"same bytes as a fresh builder"}));
    rep.sample(json!({"pool": pool.iter().map(|p| p.0.clone()).take(12).collect::<Vec<_>>()}));
    let meta = Meta {
        rule: "pool = messages decoded from the zero / ones / testdata / counter payloads of every supported type (those the encoder refuses stay in the pool as failing operations) + maximum-length messages + messages without a wire form + messages failing at the first field, inside a list (GLONASS legacy messages failing in their k-th satellite, k = 1..12, i.e. at many bit positions), at the last field + legacy messages with 0..=12 default satellites (targets of many bit lengths). Breadth-first search from the fresh builder: state = (buffer, has_run) via hook H3, action = build(p); frontier states are re-created by replaying their shortest history. In every reachable state every pool message is built and compared with the fresh-builder result (public API only). The search runs until no new state appears (all finite histories over the pool) or a bound is hit. Additionally every history of the shape [A, B, A] over the pool is run without deduplication, and a 'length ladder' (previous frames of several hundred distinct lengths full of one-bits: 1029 with 0..255 text bytes, 1077 with every reachable body length) is followed by each of ten short targets. states = distinct builder states; transitions = builds compared".into(),
        exhaustive: closed,
        bounds: json!({"max_depth": max_depth, "state_cap": cap_states, "pool": n}),
        assumptions: vec!["state deduplication reads the private buffer through hook H3; the verdict itself never does".into()],
    };
    (rep, meta)
}

pub fn replay(r: &serde_json::Value) -> Option<String> {
    let pool = pool();
    let hist: Vec<String> = r["history"].as_array()?.iter().map(|x| x.as_str().unwrap_or("").to_string()).collect();
    let target = r["target"].as_str()?;
    let find = |name: &str| pool.iter().find(|p| p.0 == name).map(|p| &p.1);
    let t = find(target)?;
    let mut b = MessageBuilder::new();
    let mut s = String::new();
    for h in &hist {
        let m = find(h)?;
        let r = build_on(&mut b, m);
        s.push_str(&format!("build '{}' -> {:?}\n", h, r.map(|r| r.map(|f| f.len()))));
    }
    let used = build_on(&mut b, t);
    let fresh = build_on(&mut MessageBuilder::new(), t);
    s.push_str(&format!("used builder : {:?}\nfresh builder: {:?}\n", used.as_ref().map(|r| r.as_ref().map(|f| hex(f))), fresh.as_ref().map(|r| r.as_ref().map(|f| hex(f)))));
    Some(s)
}

//! `mc <Cxx> [--tier quick|thorough] [--out evidence.json] [--replay file]`
//! Bounded-exhaustive checks of rtcm-rs that do not need serde.

mod bias;
mod bits;
mod builder;
mod common;
mod decode;
mod decode_checks;
mod field;
mod frame;
mod lists;
mod msm;
mod sig;
mod textchk;
mod replay;

use mc_core::*;

fn run_prop(ctx: &Ctx) -> Option<(Report, Meta)> {
    Some(match ctx.prop.as_str() {
        "C01" => decode_checks::c01a(ctx),
        "C02" => decode_checks::c02(ctx),
        "C07" => bits::c07(ctx),
        "C10" => msm::c10(ctx),
        "C12" => builder::c12(ctx),
        "C15" => lists::c15(ctx),
        "C16" => bias::c16(ctx),
        "C17" => textchk::c17(ctx),
        "C18" => sig::c18(ctx),
        "C08" => field::c08(ctx),
        "C11" => field::c11(ctx),
        "C03" => frame::c03(ctx),
        "C04" => frame::c04(ctx),
        "C05" => frame::c05(ctx),
        "C06" => frame::c06(ctx),
        "C13" => frame::c13(ctx),
        "C14" => frame::c14(ctx),
        _ => return None,
    })
}

fn main() {
    let ctx = Ctx::from_args();
    install_panic_hook();
    if ctx.prop == "C05-DEEP-SCAN" {
        let n = ctx.args.first().and_then(|a| a.parse::<usize>().ok()).unwrap_or(1000);
        frame::deep_scan_child(n);
        return;
    }
    if ctx.prop == "DUMP-DF-REFERENCE" {
        println!("{}", serde_json::to_string_pretty(&field::dump_df_reference()).unwrap());
        return;
    }
    watchdog_start(if ctx.tier.thorough() { 240 } else { 60 });
    if let Some(p) = &ctx.replay {
        let code = replay::replay(&ctx, p);
        if code != 3 {
            std::process::exit(code);
        }
        // no single-execution replay for this kind of record: re-run the property's exploration and
        // look for the recorded key
        let key = std::fs::read_to_string(p).ok().and_then(|s| serde_json::from_str::<serde_json::Value>(&s).ok()).and_then(|v| v["key"].as_str().map(|x| x.to_string())).unwrap_or_default();
        match run_prop(&ctx) {
            None => {
                println!("MACHINERY-FAILURE: unknown property {:?}", ctx.prop);
                std::process::exit(2);
            }
            Some((rep, _)) => match rep.viol.get(&(ctx.prop.clone(), key.clone())) {
                Some(v) => {
                    println!("property: {}\nkey: {}\nfound again by re-running the {} exploration ({} occurrence(s)):\n{}\nminimal witness: {}", ctx.prop, key, ctx.tier.name(), v.count, v.what, v.replay);
                    std::process::exit(1);
                }
                None => {
                    println!("property: {}\nkey: {}\nnot found by re-running the {} exploration ({} other violation key(s))", ctx.prop, key, ctx.tier.name(), rep.viol.len());
                    std::process::exit(0);
                }
            },
        }
    }
    let (rep, meta) = match run_prop(&ctx) {
        Some(x) => x,
        None => {
            println!("MACHINERY-FAILURE: unknown property {:?}", ctx.prop);
            std::process::exit(2);
        }
    };
    std::process::exit(finish(&ctx, &rep, meta));
}

/// replay kinds of engines added later
pub fn replay_more(kind: &str, r: &serde_json::Value) -> Result<String, String> {
    let o = match kind {
        "bitfield" => bits::replay(r),
        "field_pattern" | "field_value" => field::replay(kind, r),
        "msm_triple" => msm::replay(kind, r),
        "builder_history" => builder::replay(r),
        _ => None,
    };
    o.ok_or_else(|| format!("unknown or malformed replay kind {:?}", kind))
}

//! Re-run exactly one recorded execution (twice, requiring identical observations).

use crate::common::*;
use mc_core::*;
use rtcm_rs::prelude::*;
use serde_json::Value;

fn observe(kind: &str, r: &Value) -> Result<String, String> {
    let bytes = |k: &str| unhex(r[k].as_str().unwrap_or(""));
    let o = match kind {
        "frame_new" => format!("{:?}", catch(|| observe_frame(&bytes("bytes")))),
        "damaged_frame" => {
            let b = bytes("damaged");
            format!("{:?}", catch(|| (observe_frame(&b), real_scan(&b))))
        }
        "scan" | "scan_decode" => {
            let b = bytes("bytes");
            format!(
                "{:?}",
                catch(|| {
                    let mut out = vec![];
                    let mut it = MsgFrameIter::new(&b);
                    for f in &mut it {
                        out.push((hex(f.frame_data()), format!("{:?}", f.get_message())));
                        if out.len() > b.len() { break; }
                    }
                    (real_scan(&b).0, out, it.consumed())
                })
            )
        }
        "chunking" => {
            let s = bytes("stream");
            let r = catch(|| crate::frame::explore_chunkings(&s, None));
            match r {
                Ok(r) => format!("states={} transitions={} violation={:?}", r.states, r.transitions, r.violation),
                Err(p) => format!("panic {:?}", p),
            }
        }
        "suffix" => {
            let f = bytes("frame");
            let mut g = f.clone();
            g.extend_from_slice(&bytes("suffix"));
            let a = |s: &[u8]| match MessageFrame::new(s) {
                Ok(f) => format!("frame_len={} data_len={} crc={:06x} number={:?} msg={:?}", f.frame_len(), f.data_len(), f.crc(), f.message_number(), f.get_message()),
                Err(e) => format!("{:?}", e),
            };
            format!("without suffix: {:?}\nwith suffix:    {:?}", catch(|| a(&f)), catch(|| a(&g)))
        }
        "frame_decode" => {
            let f = bytes("frame");
            format!("{:?}", catch(|| MessageFrame::new(&f).map(|fr| format!("{:?}", fr.get_message())).map_err(|e| format!("{:?}", e))))
        }
        other => return crate::replay_more(other, r),
    };
    Ok(o)
}

pub fn replay(_ctx: &Ctx, path: &std::path::Path) -> i32 {
    let Ok(s) = std::fs::read_to_string(path) else {
        println!("MACHINERY-FAILURE: cannot read {}", path.display());
        return 2;
    };
    let v: Value = match serde_json::from_str(&s) {
        Ok(v) => v,
        Err(e) => {
            println!("MACHINERY-FAILURE: {}: {}", path.display(), e);
            return 2;
        }
    };
    let r = &v["replay"];
    let kind = r["kind"].as_str().unwrap_or("");
    let a = observe(kind, r);
    let b = observe(kind, r);
    match (a, b) {
        (Ok(a), Ok(b)) => {
            if a != b {
                println!("MACHINERY-FAILURE: replay is not deterministic\n--- first\n{}\n--- second\n{}", a, b);
                return 2;
            }
            println!("property: {}\nkey: {}\nwhat: {}\nobserved (identical in two runs):\n{}", v["property"], v["key"], v["what"], a);
            1
        }
        (Err(e), _) | (_, Err(e)) => {
            if e.starts_with("unknown or malformed replay kind") {
                return 3; // caller falls back to re-running the exploration
            }
            println!("MACHINERY-FAILURE: {}", e);
            2
        }
    }
}

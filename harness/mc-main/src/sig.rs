//! C18: signal identifier tables are one-to-one and ordered as on the wire.

use crate::msm::{apply, ids, spec_payload, Op};
use mc_core::*;
use rtcm_rs::msg::*;
use rtcm_rs::prelude::*;
use serde_json::json;
use std::cmp::Ordering;
use std::collections::BTreeMap;

trait SigT: Copy + Ord + PartialOrd + Eq + Send + Sync + 'static {
    fn mk(b: u8, a: char) -> Self;
    fn valid(self) -> bool;
}
macro_rules! sigt {
    ($($t:ty),*) => {$(
        impl SigT for $t {
            fn mk(b: u8, a: char) -> Self { <$t>::new(b, a) }
            fn valid(self) -> bool { self.is_valid() }
        }
    )*};
}
sigt!(GpsSigId, GloSigId, GalSigId, SbasSigId, QzssSigId, BdsSigId, NavicSigId);

fn decode_payload(p: &[u8]) -> Message {
    let f = make_frame(&p[..64]);
    MessageFrame::new(&f).map(|fr| fr.get_message()).unwrap_or(Message::Corrupt)
}

fn constellation<S: SigT>(rep: &mut Report, name: &str, msm4: u16, table: &'static [(u8, u8, char)]) {
    let fail = |rep: &mut Report, key: String, what: String| {
        rep.violation("C18", format!("{}:{}", name, key), format!("{}: {}", name, what), 0, json!({"kind":"sig_table","constellation":name}));
    };
    // 1. is_valid over the complete (band, char) domain
    let parts = par_shards(256, |band| {
        let mut v: Vec<(u8, char)> = vec![];
        watch_enter(0x1800_0000 + band as u64);
        for cp in 0..=0x10FFFFu32 {
            if let Some(c) = char::from_u32(cp) {
                if S::mk(band as u8, c).valid() {
                    v.push((band as u8, c));
                }
            }
        }
        watch_leave();
        v
    });
    let valid: Vec<(u8, char)> = parts.into_iter().flatten().collect();
    rep.states += 256 * 1_112_064;
    rep.transitions += 256 * 1_112_064;
    rep.outcome_n(&format!("{}-recognised-descriptors", name), valid.len() as u64);
    // 2. forward map through the wire: one-satellite one-cell MSM4 message, read the signal mask
    let first = table[0];
    let base = decode_payload(&spec_payload(msm4, &[1], &[first.0], &[(1, first.0)], 3));
    if ids(&base).is_none() {
        return fail(rep, "base".into(), format!("one-cell MSM4 frame (msg {}) does not decode to a typed message", msm4));
    }
    let mut fwd: BTreeMap<(u8, char), u8> = BTreeMap::new();
    for &(b, a) in &valid {
        let mut m = base.clone();
        apply(&mut m, Op::SetCellSig(0, b, a));
        rep.transitions += 1;
        let r = catch(|| {
            let mut bld = MessageBuilder::new();
            bld.build_message(&m).map(|x| x.to_vec()).map_err(|e| format!("{:?}", e))
        });
        match r {
            Ok(Ok(f)) => {
                let mask = get_bits(&f[3..], 137, 32) as u32;
                if mask.count_ones() != 1 {
                    fail(rep, format!("fwd-mask:{}{}", b, a), format!("descriptor {}{} encodes to signal mask {:#010x}", b, a, mask));
                } else {
                    fwd.insert((b, a), mask.leading_zeros() as u8 + 1);
                }
            }
            other => fail(rep, format!("fwd-refused:{}{}", b, a), format!("valid descriptor {}{} is not encodable: {:?}", b, a, other)),
        }
    }
    // 3. reverse map: harness-written one-cell frame for each of the 32 positions
    let mut rev: BTreeMap<u8, (u8, char)> = BTreeMap::new();
    for pos in 1..=32u8 {
        let m = decode_payload(&spec_payload(msm4, &[1], &[pos], &[(1, pos)], 3));
        rep.transitions += 1;
        if let Some((_, cells)) = ids(&m) {
            if cells.len() == 1 {
                rev.insert(pos, (cells[0].1, cells[0].2));
            } else {
                fail(rep, format!("rev-cells:{}", pos), format!("one-cell frame at mask position {} decodes to {} cells", pos, cells.len()));
            }
        }
    }
    // mutually inverse, positions within 2..=32
    for (d, p) in &fwd {
        if *p < 2 || *p > 32 {
            fail(rep, format!("position-range:{}", p), format!("descriptor {}{} sits at mask position {}", d.0, d.1, p));
        }
        if rev.get(p) != Some(d) {
            fail(rep, format!("not-inverse:fwd:{}", p), format!("descriptor {}{} encodes to position {} which decodes to {:?}", d.0, d.1, p, rev.get(p)));
        }
    }
    for (p, d) in &rev {
        if fwd.get(d) != Some(p) {
            fail(rep, format!("not-inverse:rev:{}", p), format!("position {} decodes to {}{} which {}", p, d.0, d.1, match fwd.get(d) { Some(q) => format!("encodes to position {}", q), None => "is not a valid descriptor".into() }));
        }
    }
    let mut positions: Vec<u8> = fwd.values().cloned().collect();
    positions.sort();
    let before = positions.len();
    positions.dedup();
    if positions.len() != before {
        fail(rep, "not-injective".into(), "two descriptors share a mask position".into());
    }
    // 4. the standard's entries are valid and at their standard positions
    for &(pos, b, a) in table {
        match fwd.get(&(b, a)) {
            Some(p) if *p == pos => {}
            Some(p) => fail(rep, format!("standard-position:{}{}", b, a), format!("descriptor {}{} is at mask position {}, the standard says {}", b, a, p, pos)),
            None => fail(rep, format!("standard-missing:{}{}", b, a), format!("descriptor {}{} of the standard's table is not recognised", b, a)),
        }
    }
    rep.outcome_n(&format!("{}-standard-entries", name), table.len() as u64);
    // 5. ordering: R by position, R < U, total order on R u U
    let mut r: Vec<((u8, char), u8)> = fwd.iter().map(|(d, p)| (*d, *p)).collect();
    if r.len() > 120 {
        // far more recognised descriptors than any table has (already reported above as not-inverse /
        // not-injective): keep the ordering part finite -- the standard's entries plus an even sample
        rep.notes.push(format!("{}: {} recognised descriptors; ordering checked on the standard's entries and a sample of 100", name, r.len()));
        let step = r.len() / 100 + 1;
        let sample: Vec<((u8, char), u8)> = r.iter().enumerate().filter(|(i, e)| i % step == 0 || table.iter().any(|t| t.1 == e.0 .0 && t.2 == e.0 .1)).map(|(_, e)| *e).collect();
        r = sample;
    }
    let mut u: Vec<(u8, char)> = vec![];
    for b in [0u8, 1, 2, 5, 9, 255] {
        for a in ['\0', '0', '@', 'E', 'J', 'Y', 'a', '~', '\u{ff}', '\u{10ffff}'] {
            if !fwd.contains_key(&(b, a)) {
                u.push((b, a));
            }
        }
    }
    let all: Vec<(u8, char)> = r.iter().map(|x| x.0).chain(u.iter().cloned()).collect();
    let rank = |d: &(u8, char)| fwd.get(d).cloned();
    let n = all.len();
    let cmp = |x: &(u8, char), y: &(u8, char)| S::mk(x.0, x.1).cmp(&S::mk(y.0, y.1));
    for i in 0..n {
        for j in 0..n {
            let (x, y) = (&all[i], &all[j]);
            rep.transitions += 1;
            let c = cmp(x, y);
            let pc = S::mk(x.0, x.1).partial_cmp(&S::mk(y.0, y.1));
            if let Some(pc) = pc {
                if pc != c {
                    fail(rep, "partial-vs-total".into(), format!("partial_cmp({:?},{:?}) = {:?} but cmp = {:?}", x, y, pc, c));
                }
            }
            if (c == Ordering::Equal) != (x == y) {
                fail(rep, "equal-iff-same".into(), format!("cmp({:?},{:?}) = {:?}", x, y, c));
            }
            // the type's own `==` (consistent with the order: equal exactly for the same descriptor)
            if (S::mk(x.0, x.1) == S::mk(y.0, y.1)) != (x == y) {
                fail(rep, "eq-operator".into(), format!("{:?} == {:?} is {} although cmp = {:?}", x, y, S::mk(x.0, x.1) == S::mk(y.0, y.1), c));
            }
            if cmp(y, x) != c.reverse() {
                fail(rep, "antisymmetry".into(), format!("cmp({:?},{:?}) = {:?} but cmp({:?},{:?}) = {:?}", x, y, c, y, x, cmp(y, x)));
            }
            match (rank(x), rank(y)) {
                (Some(a), Some(b)) => {
                    if c != a.cmp(&b) {
                        fail(rep, "position-order".into(), format!("{:?} (position {}) vs {:?} (position {}) compares {:?}", x, a, y, b, c));
                    }
                }
                (Some(_), None) => {
                    if c != Ordering::Less {
                        fail(rep, "recognised-first".into(), format!("recognised {:?} vs unrecognised {:?} compares {:?}", x, y, c));
                    }
                }
                _ => {}
            }
        }
    }
    // transitivity over all triples
    let mut ord = vec![vec![Ordering::Equal; n]; n];
    for i in 0..n {
        for j in 0..n {
            ord[i][j] = cmp(&all[i], &all[j]);
        }
    }
    'tri: for i in 0..n {
        for j in 0..n {
            if ord[i][j] == Ordering::Greater {
                continue;
            }
            for k in 0..n {
                rep.transitions += 1;
                if ord[j][k] != Ordering::Greater && ord[i][k] == Ordering::Greater {
                    fail(rep, "transitivity".into(), format!("{:?} <= {:?} <= {:?} but {:?} > {:?}", all[i], all[j], all[k], all[i], all[k]));
                    break 'tri;
                }
            }
        }
    }
    // unrecognised descriptors are refused by the encoder
    for d in u.iter().take(12) {
        let mut m = base.clone();
        apply(&mut m, Op::SetCellSig(0, d.0, d.1));
        rep.transitions += 1;
        let r = catch(|| {
            let mut bld = MessageBuilder::new();
            bld.build_message(&m).map(|x| x.len()).map_err(|e| format!("{:?}", e))
        });
        if !matches!(r, Ok(Err(_))) {
            fail(rep, "unrecognised-encoded".into(), format!("unrecognised descriptor {:?} is not refused: {:?}", d, r));
        }
    }
    rep.traces += (n * n) as u64 + valid.len() as u64 + 32;
    rep.sample(json!({"constellation":name,"forward_map":fwd.iter().map(|(d,p)| format!("{}{}={}", d.0, d.1, p)).collect::<Vec<_>>()}));
}

/// a panic anywhere in the subject's comparison / validity code is a violation, not a harness crash
fn guarded(rep: &mut Report, name: &str, f: impl FnOnce(&mut Report)) {
    let mut tmp = Report::new();
    match catch(|| f(&mut tmp)) {
        Ok(()) => rep.merge(tmp),
        Err(p) => {
            rep.merge(tmp);
            rep.violation("C18", format!("{}:panic:{}", name, p.location), format!("{}: is_valid / cmp / encode of a signal descriptor panicked at {}: {}", name, p.location, p.message), 0, json!({"kind":"sig_table","constellation":name}));
        }
    }
}

pub fn c18(ctx: &Ctx) -> (Report, Meta) {
    let mut rep = Report::new();
    guarded(&mut rep, "GPS", |r| constellation::<GpsSigId>(r, "GPS", 1074, SIG_GPS));
    guarded(&mut rep, "GLONASS", |r| constellation::<GloSigId>(r, "GLONASS", 1084, SIG_GLO));
    guarded(&mut rep, "Galileo", |r| constellation::<GalSigId>(r, "Galileo", 1094, SIG_GAL));
    guarded(&mut rep, "SBAS", |r| constellation::<SbasSigId>(r, "SBAS", 1104, SIG_SBAS));
    guarded(&mut rep, "QZSS", |r| constellation::<QzssSigId>(r, "QZSS", 1114, SIG_QZSS));
    guarded(&mut rep, "BeiDou", |r| constellation::<BdsSigId>(r, "BeiDou", 1124, SIG_BDS));
    guarded(&mut rep, "NavIC", |r| constellation::<NavicSigId>(r, "NavIC", 1134, SIG_NAVIC));
    rep.distinct_nontrivial = rep.outcomes.iter().filter(|(k, _)| k.ends_with("recognised-descriptors")).map(|(_, v)| *v).sum();
    let _ = ctx;
    let meta = Meta {
        rule: "per constellation: is_valid on the complete domain 256 bands x 1,112,064 chars; forward map descriptor -> mask position observed on the wire (one-cell MSM4 message built by the real encoder), reverse map position -> descriptor from harness-written one-cell frames for all 32 positions; the two must be mutually inverse, injective, within 2..=32, and contain the standard's table at the standard positions; cmp on all ordered pairs and all triples of (recognised u 60 unrecognised) descriptors: agrees with position order, recognised before unrecognised, reflexive/antisymmetric/transitive, Equal iff identical, partial_cmp agrees where defined. states = descriptors evaluated; distinct_nontrivial = recognised descriptors found".into(),
        exhaustive: true,
        bounds: json!({"domain":"256 x 1112064 descriptors per constellation","unrecognised_sample":60}),
        assumptions: vec!["reference tables typed in from RTCM 10403.3 (tables 3.5-91/96/99/102/105/108, NavIC amendment)".into()],
    };
    (rep, meta)
}

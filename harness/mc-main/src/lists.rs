//! C15: count-prefixed lists and strings of every admissible length.
//!
//! Generic over message types: the count fields are located from the H2 parse trace of the
//! zero-payload run (a field of <= 8 bits whose value 1 lengthens the trace) and bound to a
//! harness-side table of capacities.  Frames are written by the harness (count = v, element
//! bits filled in wire order), decoded by the real decoder and re-encoded by the real encoder.

use crate::common::*;
use crate::decode::{Cls, Engine, PAYLOAD_MAX};
use mc_core::*;
use rtcm_rs::prelude::*;
use serde_json::json;

/// capacities of the count sites of each list-/string-bearing message, in wire order
/// (from the standard / the documented capacities of the current tree; MSM, 1059, 1065, 1230
/// and 1029 are covered by C10, C16, C17)
pub fn cap_table() -> Vec<(u16, Vec<usize>)> {
    let mut t: Vec<(u16, Vec<usize>)> = vec![];
    for n in [1001u16, 1002, 1003, 1004, 1009, 1010, 1011, 1012, 1013, 1030, 1031, 1034, 1035, 1303, 1304] {
        t.push((n, vec![31]));
    }
    for n in [1015u16, 1016, 1017, 1037, 1038, 1039] {
        t.push((n, vec![15]));
    }
    for (n, c) in [(1057u16, 60usize), (1058, 63), (1060, 39), (1061, 63), (1062, 63), (1063, 60), (1064, 63), (1066, 39), (1067, 63), (1068, 63)] {
        t.push((n, vec![c]));
    }
    t.push((1007, vec![31]));
    t.push((1008, vec![31, 31]));
    t.push((1033, vec![31; 5]));
    t.push((1021, vec![31, 31]));
    t.push((1022, vec![31, 31]));
    t.push((1300, vec![31]));
    t.push((1301, vec![31, 31]));
    t.push((1302, vec![31, 7]));
    t
}

fn zero_base(n: u16) -> Vec<u8> {
    let mut z = vec![0u8; PAYLOAD_MAX];
    z[0] = (n >> 4) as u8;
    z[1] = ((n & 0xf) << 4) as u8;
    z
}

#[derive(Clone, Copy, PartialEq, Debug)]
enum Fill {
    Zeros,
    Ones,
    Coded,
}

struct Ex<'a> {
    eng: Engine<'a>,
    scratch: Report,
}
impl<'a> Ex<'a> {
    /// one decoder run; the trace is normalised so that the engine does not depend on the decoder's
    /// access style: zero-length accesses are dropped and a bulk `consume_bits(8n)` region is
    /// presented as n byte-sized reads
    fn trace(&mut self, p: &[u8], t: usize) -> crate::decode::Run {
        let mut r = self.eng.run(p, t, &mut self.scratch, &|| json!(null));
        let mut norm = Vec::with_capacity(r.trace.len());
        for &(o, l, c) in &r.trace {
            if l == 0 {
                continue;
            }
            if c {
                let mut off = o;
                let mut left = l;
                while left > 0 {
                    let w = left.min(8);
                    norm.push((off, w, false));
                    off += w;
                    left -= w;
                }
            } else {
                norm.push((o, l, false));
            }
        }
        r.trace = norm;
        r
    }
}

/// The records the decoder reads *because of* this list: the block of `t.len() - t0.len()` records
/// inserted at position `q` of the zero-count trace `t0` (q = right after the count field, or the
/// end of the message for the legacy/1013 layout whose count sits in the middle of the header).
fn window(t0: &[(u32, u32, bool)], t: &[(u32, u32, bool)], q: usize) -> Vec<(u32, u32, bool)> {
    let k = t.len().saturating_sub(t0.len());
    t[q.min(t.len())..(q + k).min(t.len())].to_vec()
}

/// fill, in wire order, every element field of the list (a nested count changes what follows, so
/// the layout is re-read after every batch); returns the final run
fn fill_after(ex: &mut Ex, p: &mut Vec<u8>, t0: &[(u32, u32, bool)], q: usize, fill: Fill, runs: &mut u64) -> crate::decode::Run {
    let mut cursor = 0u32;
    let mut k = 0u64;
    for _round in 0..64 {
        let r = ex.trace(p, PAYLOAD_MAX);
        *runs += 1;
        if fill == Fill::Zeros {
            return r;
        }
        let w: Vec<(u32, u32, bool)> = window(t0, &r.trace, q).into_iter().filter(|(o, l, c)| *o >= cursor && !*c && *l >= 1 && *l <= 64 && ((*o + *l) as usize) <= 8 * PAYLOAD_MAX).collect();
        if w.is_empty() {
            return r;
        }
        for (oo, ll, _) in &w {
            let v = match fill {
                Fill::Ones => u64::MAX,
                _ => {
                    k += 1;
                    // index-coded; top bit clear, lowest bit set (never all-zero for l >= 2, never all-one)
                    let x = (k.wrapping_mul(0x9E3779B97F4A7C15) >> 7) | 1;
                    x & !(1u64 << ((*ll as u64 - 1).min(63)))
                }
            };
            set_bits(p, *oo as usize, *ll as usize, v);
        }
        let r2 = ex.trace(p, PAYLOAD_MAX);
        *runs += 1;
        let w2: Vec<(u32, u32, bool)> = window(t0, &r2.trace, q).into_iter().filter(|(o, _, c)| *o >= cursor && !*c).collect();
        let mut common = 0;
        while common < w.len() && common < w2.len() && w[common] == w2[common] {
            common += 1;
        }
        if common == w.len() && w.len() == w2.len() {
            return r2;
        }
        // layout moved at w2[common] (a nested count was filled): everything before it is final
        let new_cursor = if common < w2.len() { w2[common].0 } else { return r2 };
        if new_cursor <= cursor && common == 0 {
            return r2;
        }
        cursor = new_cursor;
    }
    ex.trace(p, PAYLOAD_MAX)
}

fn check_number(rep: &mut Report, n: u16, caps: &[usize]) {
    let mut ex = Ex { eng: Engine::new("C15", n), scratch: Report::new() };
    let id = 0x1500_0000u64 + n as u64;
    watch_enter(id);
    let base = zero_base(n);
    let x0 = ex.trace(&base, PAYLOAD_MAX);
    let fail = |rep: &mut Report, key: String, what: String, payload: &[u8], t: usize| {
        rep.violation("C15", format!("{}:{}", n, key), format!("msg {}: {}", n, what), t as u64, json!({"kind":"frame_decode","frame":hex(&make_frame(&payload[..t]))}));
    };
    if x0.cls != Cls::Typed {
        fail(rep, "zero-base".into(), format!("zero payload decodes to {:?}", x0.cls), &base, PAYLOAD_MAX);
        return;
    }
    // locate count-like sites
    let mut sites: Vec<(u32, u32)> = vec![];
    for &(o, l, c) in &x0.trace {
        if c || l > 8 || o < 12 {
            continue;
        }
        let mut p = base.clone();
        set_bits(&mut p, o as usize, l as usize, 1);
        let x1 = ex.trace(&p, PAYLOAD_MAX);
        // a count: one more element makes the decoder read further (whatever access style it uses)
        if x1.needed_bits > x0.needed_bits {
            sites.push((o, l));
        }
    }
    if sites.len() != caps.len() {
        fail(rep, "count-sites".into(), format!("found {} count-prefixed lists/strings at {:?}, the capacity table lists {}", sites.len(), sites, caps.len()), &base, PAYLOAD_MAX);
        return;
    }
    let mut runs = 0u64;
    for (si, &(o, l)) in sites.iter().enumerate() {
        let cap = caps[si];
        let maxv = (1usize << l) - 1;
        let t0 = x0.trace.clone();
        let site_idx = t0.iter().position(|r| r.0 == o && r.1 == l).unwrap();
        let q = if matches!(n, 1001..=1004 | 1009..=1013) { t0.len() } else { site_idx + 1 };
        if maxv < cap {
            fail(rep, format!("site{}:count-field-too-narrow", si), format!("count field of {} bits at bit {} cannot express the capacity {}", l, o, cap), &base, PAYLOAD_MAX);
        }
        for v in 0..=maxv {
            watch_enter(id);
            for fill in [Fill::Zeros, Fill::Ones, Fill::Coded] {
                let mut p = base.clone();
                set_bits(&mut p, o as usize, l as usize, v as u64);
                rep.states += 1;
                if v > cap {
                    // the body is present (1023-byte payload); elements the decoder would read are filled too
                    let r = fill_after(&mut ex, &mut p, &t0, q, fill, &mut runs);
                    rep.transitions += 1;
                    rep.traces += 1;
                    if r.cls != Cls::Corrupt {
                        fail(rep, format!("site{}:over-capacity-accepted", si), format!("count {} exceeds the capacity {} but the frame decodes to {:?}", v, cap, r.cls), &p, PAYLOAD_MAX);
                    } else {
                        rep.outcome("count>capacity->Corrupt");
                    }
                    continue;
                }
                let r = fill_after(&mut ex, &mut p, &t0, q, fill, &mut runs);
                rep.transitions += 1;
                if r.cls != Cls::Typed {
                    fail(rep, format!("site{}:admissible-count-rejected", si), format!("count {} (capacity {}, fill {:?}) decodes to {:?}", v, cap, fill, r.cls), &p, PAYLOAD_MAX);
                    continue;
                }
                let need_bits = r.needed_bits as usize;
                let need = (need_bits + 7) / 8;
                // decode -> encode -> decode
                let frame = make_frame(&p[..need]);
                let res = catch(|| {
                    let m = MessageFrame::new(&frame).map(|f| f.get_message()).map_err(|e| format!("{:?}", e))?;
                    let mut b = MessageBuilder::new();
                    let built = b.build_message(&m).map(|x| x.to_vec()).map_err(|e| format!("build: {:?}", e))?;
                    let m2 = MessageFrame::new(&built).map(|f| f.get_message()).map_err(|e| format!("built frame: {:?}", e))?;
                    Ok::<_, String>((built, m2 == m, outcome_class(&m2)))
                });
                rep.transitions += 2;
                match res {
                    Err(pn) => fail(rep, format!("site{}:panic:{}", si, pn.location), format!("count {}: panic {}", v, pn.message), &p, need),
                    Ok(Err(e)) => fail(rep, format!("site{}:encode-refused", si), format!("count {} (capacity {}, fill {:?}): {}", v, cap, fill, e), &p, need),
                    Ok(Ok((built, same, cls2))) => {
                        let pl = &built[3..built.len() - 3];
                        let wire_count = if pl.len() * 8 >= (o + l) as usize { get_bits(pl, o as usize, l as usize) as usize } else { usize::MAX };
                        if pl.len() > 1023 {
                            fail(rep, format!("site{}:payload-too-long", si), format!("count {}: payload of {} bytes", v, pl.len()), &p, need);
                        } else if wire_count != v {
                            fail(rep, format!("site{}:wire-count", si), format!("list of {} elements is encoded with count field {}", v, wire_count), &p, need);
                        } else if !same {
                            fail(rep, format!("site{}:roundtrip", si), format!("count {} (fill {:?}): decode(encode(m)) != m (re-decoded as {})", v, fill, cls2), &p, need);
                        } else {
                            rep.traces += 1;
                            rep.outcome("count<=capacity-roundtrip");
                        }
                    }
                }
                // truncations of the full-length frame: every body shorter than the count implies is Corrupt
                if v == cap && fill == Fill::Coded {
                    for t in 0..need {
                        let r = ex.trace(&p, t);
                        runs += 1;
                        rep.transitions += 1;
                        let ok = if t < 2 { r.cls == Cls::Empty } else { r.cls == Cls::Corrupt };
                        if !ok {
                            fail(rep, format!("site{}:truncated-accepted", si), format!("full list (count {}) truncated to {} of {} payload bytes decodes to {:?}", v, t, need, r.cls), &p, t);
                            break;
                        }
                    }
                    // the same truncated frames inside a longer buffer (bytes follow the frame): the missing elements
                    // must not be found in what comes after the frame
                    for t in (2..need).rev().take(48) {
                        let mut g = make_frame(&p[..t]);
                        g.extend_from_slice(&[0xFF; 96]);
                        rep.transitions += 1;
                        match catch(|| next_msg_frame(&g).1.map(|fr| outcome_class(&fr.get_message()))) {
                            Ok(Some("Corrupt")) => {}
                            other => {
                                fail(rep, format!("site{}:truncated-accepted-in-stream", si), format!("full list (count {}) truncated to {} of {} payload bytes and followed by other bytes decodes to {:?}", v, t, need, other.map_err(|pn| pn.message)), &p, t);
                                break;
                            }
                        }
                    }
                    rep.outcome("truncation-sweep");
                    rep.traces += 1;
                }
            }
        }
    }
    // nested case 1302: all (n, k) list and string lengths
    if n == 1302 {
        let (o, l) = sites[1];
        for cnt in 0..=7usize {
            for k in 0..=31usize {
                let mut p = base.clone();
                set_bits(&mut p, o as usize, l as usize, cnt as u64);
                let mut bit = (o + l) as usize;
                for e in 0..cnt {
                    set_bits(&mut p, bit, 5, k as u64);
                    bit += 5;
                    for c in 0..k {
                        set_bits(&mut p, bit, 8, (0x41 + ((e * 31 + c) % 26)) as u64 | if c % 5 == 4 { 0x80 } else { 0 });
                        bit += 8;
                    }
                }
                let need = (bit + 7) / 8;
                rep.states += 1;
                rep.transitions += 3;
                let frame = make_frame(&p[..need]);
                let res = catch(|| {
                    let m = MessageFrame::new(&frame).map(|f| f.get_message()).map_err(|e| format!("{:?}", e))?;
                    let (nl, lens) = match &m {
                        Message::Msg1302(t) => (t.db_links.len(), t.db_links.iter().map(|x| x.database_link_str.len()).collect::<Vec<_>>()),
                        other => return Err(format!("decodes to {}", outcome_class(other))),
                    };
                    let mut b = MessageBuilder::new();
                    let built = b.build_message(&m).map(|x| x.to_vec()).map_err(|e| format!("build: {:?}", e))?;
                    Ok::<_, String>((nl, lens, built == frame))
                });
                match res {
                    Ok(Ok((nl, lens, same))) if nl == cnt && lens.iter().all(|x| *x == k) && same => {
                        rep.traces += 1;
                        rep.outcome("1302-nested-(n,k)");
                    }
                    other => fail(rep, "1302-nested".into(), format!("{} links of {} characters: {:?}", cnt, k, other), &p, need),
                }
            }
        }
    }
    rep.add_extra_u64("decoder_runs", runs + ex.scratch.transitions);
    rep.add_extra_u64("count_sites", sites.len() as u64);
    watch_leave();
}

/// 1029: the two counters in front of the text (7-bit number of characters, 8-bit number of UTF-8 code units)
/// carry the true counts for every admissible text, and the text comes back unchanged
fn c15_text_1029(rep: &mut Report) {
    let mut z = vec![0u8; 16];
    z[0] = (1029u16 >> 4) as u8;
    z[1] = ((1029u16 & 0xf) << 4) as u8;
    let base = match catch(|| MessageFrame::new(&make_frame(&z)).map(|fr| fr.get_message())) {
        Ok(Ok(Message::Msg1029(t))) => t,
        _ => {
            rep.violation("C15", "1029:zero-base".into(), "1029 zero payload does not decode to a typed message".into(), 0, json!({"kind":"text_message"}));
            return;
        }
    };
    let widths = ['a', '\u{e9}', '\u{20ac}', '\u{1f600}'];
    let mut texts: Vec<String> = vec![String::new()];
    // n characters of one width; n characters alternating two widths; one wide character at the start / end
    for n in 1..=127usize {
        for (i, a) in widths.iter().enumerate() {
            texts.push(std::iter::repeat(*a).take(n).collect());
            for b in widths.iter().skip(i + 1) {
                texts.push((0..n).map(|k| if k % 2 == 0 { *a } else { *b }).collect());
                let mut t: String = std::iter::repeat(*a).take(n - 1).collect();
                t.push(*b);
                texts.push(t.clone());
                texts.push(format!("{}{}", b, &t[..t.len() - b.len_utf8()]));
            }
        }
    }
    for s in &texts {
        if s.len() > 255 {
            continue;
        }
        rep.states += 1;
        rep.transitions += 2;
        rep.traces += 1;
        let nchars = s.chars().count();
        let desc = || json!({"kind":"text_message","what":format!("1029 text of {} characters / {} bytes", nchars, s.len()),"chars":s.chars().map(|c| c as u32).collect::<Vec<_>>()});
        let r = catch(|| {
            let mut t = base.clone();
            t.text_str = rtcm_rs::util::ArrayString::<255>::from(s.as_str());
            let m = Message::Msg1029(t);
            let mut b = MessageBuilder::new();
            match b.build_message(&m) {
                Err(e) => Err(format!("{:?}", e)),
                Ok(f) => {
                    let f = f.to_vec();
                    let back = MessageFrame::new(&f).map(|fr| fr.get_message()).unwrap_or(Message::Corrupt);
                    Ok((f, back == m))
                }
            }
        });
        match r {
            Err(p) => rep.violation("C15", format!("1029:panic:{}", p.location), format!("1029 text of {} characters / {} bytes panics: {}", nchars, s.len(), p.message), nchars as u64, desc()),
            Ok(Err(e)) => rep.violation("C15", "1029:refused".into(), format!("1029 text of {} characters / {} bytes (within 127 / 255) refused with {}", nchars, s.len(), e), nchars as u64, desc()),
            Ok(Ok((f, same))) => {
                let payload = &f[3..f.len() - 3];
                let wc = get_bits(payload, 57, 7) as usize;
                let wb = get_bits(payload, 64, 8) as usize;
                if wc != nchars || wb != s.len() {
                    rep.violation("C15", "1029:wire-counters".into(), format!("1029 text of {} characters / {} bytes: counters on the wire are {} characters / {} code units", nchars, s.len(), wc, wb), nchars as u64, desc());
                } else if payload.len() < 9 + s.len() || &payload[9..9 + s.len()] != s.as_bytes() || payload.len() > 1023 {
                    rep.violation("C15", "1029:wire-text".into(), format!("1029 text of {} characters / {} bytes: text bytes on the wire differ or payload of {} bytes", nchars, s.len(), payload.len()), nchars as u64, desc());
                } else if !same {
                    rep.violation("C15", "1029:roundtrip".into(), format!("1029 text of {} characters / {} bytes does not decode back to the same message", nchars, s.len()), nchars as u64, desc());
                } else {
                    rep.outcome("1029-counters-ok");
                }
            }
        }
    }
}

pub fn c15(ctx: &Ctx) -> (Report, Meta) {
    let table = cap_table();
    let feats = feature_numbers();
    let parts = par_shards(table.len(), |i| {
        let mut rep = Report::new();
        let (n, caps) = &table[i];
        if feats.contains(n) {
            check_number(&mut rep, *n, caps);
        } else {
            rep.notes.push(format!("msg {} of the capacity table is not a compiled-in feature", n));
        }
        rep
    });
    let mut rep = Report::new();
    for p in parts {
        rep.merge(p);
    }
    if feats.contains(&1029) {
        c15_text_1029(&mut rep);
    }
    rep.distinct_nontrivial = rep.traces;
    rep.sample(json!({"number":1057,"count_field":{"bits":6,"capacity":60},"counts":"0..=63","fills":["zeros","ones","index-coded"],"expect":"<=60: typed, wire count = n, decode(encode)=m, same length; 61..63: Corrupt"}));
    rep.sample(json!({"number":1302,"nested":"all (links 0..=7) x (characters 0..=31)"}));
    let _ = ctx;
    let meta = Meta {
        rule: "for each list-/string-bearing message (table of 40 numbers / 52 count fields with their capacities; MSM, 1059, 1065, 1230 are C10/C16; the 1029 text is handled by its two counters, below): the count field is located from the parse trace; for every value the count field can hold and three element fills (zeros, all-ones, index-coded) the harness-written frame is decoded; count <= capacity must give a typed message that re-encodes (payload <= 1023 bytes, count field on the wire = number of elements) and decodes back to an equal message; count > capacity must give Corrupt with the body present; every truncation of the full-capacity frame must give Corrupt, also when other bytes follow the frame in the buffer (last 48 truncations); 1302: all (list length, string length) pairs; 1029: texts of 0..=127 characters of every mix of 1-/2-/3-/4-byte characters in a family of patterns: character counter (bits 57..64) = number of characters, code-unit counter (bits 64..72) = number of bytes, text bytes follow, decoding returns the text. states = (message, count field, value, fill); transitions = decode/encode executions".into(),
        exhaustive: true,
        bounds: json!({"counts":"every value of every count field","fills":3,"truncations":"every length of the full-capacity frame"}),
        assumptions: vec!["capacities are those documented in the current tree (31 legacy/residual/FKP/1013, 15 MAC, 60/63/39 SSR, 31 descriptor strings, 7 database links)".into()],
    };
    (rep, meta)
}

//! C02 and C01 part A on top of the E-decode engine.

use crate::common::*;
use crate::decode::run_decode_engine;
use mc_core::*;
use rtcm_rs::prelude::*;
use serde_json::json;

pub fn c02(ctx: &Ctx) -> (Report, Meta) {
    let mut rep = run_decode_engine(ctx, "C02");
    // raw buffers: scan + decode everything found
    let raw = crate::frame::enumerate_buffers(ctx.tier, &|rep, buf, desc| {
        rep.transitions += 1;
        let r = catch(|| {
            let mut it = MsgFrameIter::new(buf);
            let mut n = 0usize;
            let mut selfeq = true;
            for f in &mut it {
                let m = f.get_message();
                #[allow(clippy::eq_op)]
                if m != m {
                    selfeq = false;
                }
                n += 1;
                if n > buf.len() + 2 {
                    return (usize::MAX, selfeq);
                }
            }
            (n, selfeq)
        });
        match r {
            Err(p) => rep.violation("C02", panic_key(&p, "raw"), format!("scanning/decoding a raw buffer panicked at {}: {}", p.location, p.message), buf.len() as u64, json!({"kind":"scan","bytes":hex(buf),"desc":desc()})),
            Ok((usize::MAX, _)) => rep.violation("C02", "raw:iterator-does-not-terminate".into(), "frame iterator does not terminate".into(), buf.len() as u64, json!({"kind":"scan","bytes":hex(buf),"desc":desc()})),
            Ok((_, false)) => rep.violation("C02", "raw:self-inequality".into(), "decoded message != itself".into(), buf.len() as u64, json!({"kind":"scan","bytes":hex(buf),"desc":desc()})),
            Ok((n, true)) => {
                rep.traces += 1;
                if n > 0 {
                    rep.outcome("raw-buffer-with-frames");
                } else {
                    rep.outcome("raw-buffer-without-frames");
                }
            }
        }
    });
    rep.merge(raw);
    // hostile list frames (63 satellites x 31 biases; maximal per-satellite counts)
    for n in [1059u16, 1065] {
        for f in crate::bias::hostile_frames(n) {
            rep.transitions += 1;
            rep.states += 1;
            match catch(|| MessageFrame::new(&f).map(|fr| { let m = fr.get_message(); m == m }).unwrap_or(true)) {
                Ok(true) => {
                    rep.traces += 1;
                    rep.outcome("hostile-list-frame");
                }
                Ok(false) => rep.violation("C02", format!("hostile:self-inequality:{}", n), "decoded message != itself".into(), f.len() as u64, json!({"kind":"frame_decode","frame":hex(&f)})),
                Err(p) => rep.violation("C02", panic_key(&p, &n.to_string()), format!("msg {}: hostile frame (63 satellites x 31 biases) panics at {}: {}", n, p.location, p.message), f.len() as u64, json!({"kind":"frame_decode","frame":hex(&f)})),
            }
        }
    }
    // hostile 1029 frames: multi-byte texts with every claim of the character counter, and byte counters that
    // cut a character / run past the payload
    if crate::common::feature_numbers().contains(&1029) {
        let texts: Vec<String> = vec!["\u{e9}\u{e9}".into(), "a\u{e9}".into(), "\u{e9}a".into(), "\u{20ac}\u{20ac}".into(), "a\u{20ac}b".into(), "\u{1f600}".into(), "a\u{1f600}".into(), "\u{e9}\u{20ac}\u{1f600}".into(), "ab\u{1f600}\u{e9}".into(), std::iter::repeat('\u{e9}').take(100).collect(), std::iter::repeat('\u{1f600}').take(63).collect()];
        for t in &texts {
            let tb = t.as_bytes();
            for claim in 0..=127u64 {
                let mut bl: Vec<usize> = vec![tb.len(), tb.len().saturating_sub(1), 1, tb.len() + 1, 255];
                bl.sort();
                bl.dedup();
                for blen in bl {
                    if blen != tb.len() && claim % 16 != 1 {
                        continue;
                    }
                    let mut w = BitW::new();
                    w.put(1029, 12);
                    w.put(0, 12 + 16 + 17);
                    w.put(claim, 7);
                    w.put(blen as u64, 8);
                    for b in tb {
                        w.put(*b as u64, 8);
                    }
                    let f = make_frame(&w.to_bytes());
                    rep.transitions += 1;
                    rep.states += 1;
                    match catch(|| MessageFrame::new(&f).map(|fr| { let m = fr.get_message(); m == m }).unwrap_or(true)) {
                        Ok(true) => {
                            rep.traces += 1;
                            rep.outcome("hostile-1029-frame");
                        }
                        Ok(false) => rep.violation("C02", "hostile:self-inequality:1029".into(), "decoded message != itself".into(), f.len() as u64, json!({"kind":"frame_decode","frame":hex(&f)})),
                        Err(p) => rep.violation("C02", panic_key(&p, "1029"), format!("msg 1029: frame with text {:02x?}, character counter {} and code-unit counter {} panics at {}: {}", tb, claim, blen, p.location, p.message), f.len() as u64, json!({"kind":"frame_decode","frame":hex(&f)})),
                    }
                }
            }
        }
    }
    rep.distinct_nontrivial = rep.states;
    rep.sample(json!({"number":1077,"base":"ones","level":1,"deviations":[{"bit_offset":73,"bits":64,"value":"0x8000000000000000 (one satellite)"}],"expect":"typed or Corrupt, no panic"}));
    rep.sample(json!({"number":1004,"base":"zero","level":1,"deviations":[{"bit_offset":55,"bits":5,"value":"every 0..31"}],"then":"T = needed, needed-1 bytes"}));
    let thorough = ctx.tier.thorough();
    let meta = Meta {
        rule: "for every supported message number and every base payload (zero, ones, the repository's testdata payloads zero-extended to 1023 bytes, + a counter pattern in thorough): the 0-deviation run, every payload length 0..=1023, every single-field deviation (positions from the H2 parse trace; all 2^len values for len<=8, boundary values and mask patterns above), payload lengths 'needed' and 'needed-1' for typed results; 2 deviations (control field at each boundary value x every later field at its boundary alphabet; control pairs first) up to a cap per base (3 000 quick / 1 500 000 thorough, where thorough uses the full single-field alphabet for the second field as well); thorough adds 3 deviations (control x control x later control-like field, cap 150 000 per base). Plus hostile harness-written frames (1059/1065 with every satellite count and maximal bias counts; 1029 with multi-byte texts under every claim of the character counter and inconsistent code-unit counters). Plus raw buffers: alphabet strings, token streams and buffers beyond 1029 bytes scanned with MsgFrameIter and every frame decoded. Oracle: no panic, a documented outcome, m == m, no NaN/inf in the Debug rendering (scanned for the first execution of every distinct parse-trace shape; per-field finiteness over all patterns is C08's). states = distinct (parse-trace shape, outcome) pairs; transitions = decoder executions".into(),
        exhaustive: false,
        bounds: json!({"deviation_bound": if thorough {3} else {2}, "level2_cap_per_base": if thorough {1500000} else {3000}, "level3_cap_per_base": if thorough {150000} else {0}, "payload_lengths":"0..=1023 at level 0", "note":"deviation-bounded: complete for <= bound deviations from each base within the stated alphabets; where the level-2 cap was hit the evidence counts it"}),
        assumptions: vec!["field positions come from the parse trace of the parent run (a field's position depends only on earlier fields)".into()],
    };
    (rep, meta)
}

/// C01 part A (decoded messages are fixed points); part B lives in the serde-enabled binary.
pub fn c01a(ctx: &Ctx) -> (Report, Meta) {
    let mut rep = run_decode_engine(ctx, "C01");
    rep.distinct_nontrivial = rep.traces;
    rep.sample(json!({"part":"A","number":1059,"base":"testdata0","level":1,"oracle":"decode(encode(m)) == m up to the order of satellite groups"}));
    let thorough = ctx.tier.thorough();
    let meta = Meta {
        rule: "part A: every typed message obtained by the deviation-bounded decode exploration (all supported numbers x bases x 0/1(/2) field deviations) is handed to the real encoder; whenever it is accepted, decoding the built frame must return the same variant and an equal message (1059/1065: after a stable sort of the bias list by satellite). traces_validated = typed messages accepted by the encoder and compared".into(),
        exhaustive: false,
        bounds: json!({"deviation_bound": 2, "level2_cap_per_base": if thorough {1500000} else {3000}}),
        assumptions: vec![],
    };
    (rep, meta)
}


//! C10: MSM satellite / signal / cell masks for any input order, small-scope enumeration.

use crate::common::*;
use mc_core::*;
use rtcm_rs::msg::*;
use rtcm_rs::prelude::*;
use serde_json::json;

pub trait Sig: Copy {
    fn mk(b: u8, a: char) -> Self;
    fn b(&self) -> u8;
    fn a(&self) -> char;
}
macro_rules! sig_impl {
    ($($t:ty),*) => {$(
        impl Sig for $t {
            fn mk(b: u8, a: char) -> Self { <$t>::new(b, a) }
            fn b(&self) -> u8 { self.band() }
            fn a(&self) -> char { self.attribute() }
        }
    )*};
}
sig_impl!(GpsSigId, GloSigId, GalSigId, SbasSigId, QzssSigId, BdsSigId, NavicSigId);

pub enum Op<'a> {
    PermSats(&'a [usize]),
    PermCells(&'a [usize]),
    SetSatId(usize, u8),
    SetCellSat(usize, u8),
    SetCellSig(usize, u8, char),
    DupSat(usize),
    DupCell(usize),
    RemoveSat(usize),
    RemoveCell(usize),
    ClearCells,
}

fn permute<T: Clone>(s: &mut [T], perm: &[usize]) {
    let v: Vec<T> = s.to_vec();
    for (i, &p) in perm.iter().enumerate() {
        s[i] = v[p].clone();
    }
}

macro_rules! msm_access {
    ($($v:ident),*) => {
        /// (satellite ids of the satellite list, (satellite, band, attribute) of the cell list)
        pub fn ids(m: &Message) -> Option<(Vec<u8>, Vec<(u8, u8, char)>)> {
            match m {
                $(Message::$v(t) => Some((
                    t.data_segment.satellite_data.iter().map(|s| s.satellite_id).collect(),
                    t.data_segment.signal_data.iter().map(|c| (c.satellite_id, Sig::b(&c.signal_id), Sig::a(&c.signal_id))).collect(),
                )),)*
                _ => None,
            }
        }
        /// Debug renderings of the rows, to tell rows apart
        pub fn rows(m: &Message) -> Option<(Vec<String>, Vec<String>)> {
            match m {
                $(Message::$v(t) => Some((
                    t.data_segment.satellite_data.iter().map(|s| format!("{:?}", s)).collect(),
                    t.data_segment.signal_data.iter().map(|c| format!("{:?}", c)).collect(),
                )),)*
                _ => None,
            }
        }
        pub fn apply(m: &mut Message, op: Op) -> bool {
            match m {
                $(Message::$v(t) => {
                    let d = &mut t.data_segment;
                    match op {
                        Op::PermSats(p) => permute(d.satellite_data.as_mut_slice(), p),
                        Op::PermCells(p) => permute(d.signal_data.as_mut_slice(), p),
                        Op::SetSatId(i, v) => d.satellite_data[i].satellite_id = v,
                        Op::SetCellSat(i, v) => d.signal_data[i].satellite_id = v,
                        Op::SetCellSig(i, b, a) => d.signal_data[i].signal_id = Sig::mk(b, a),
                        Op::DupSat(i) => { let e = d.satellite_data[i].clone(); if d.satellite_data.len() >= 64 { return false; } d.satellite_data.push(e) }
                        Op::DupCell(i) => { let e = d.signal_data[i].clone(); if d.signal_data.len() >= 64 { return false; } d.signal_data.push(e) }
                        Op::RemoveSat(i) => { d.satellite_data.remove(i); }
                        Op::RemoveCell(i) => { d.signal_data.remove(i); }
                        Op::ClearCells => d.signal_data.clear(),
                    }
                    true
                })*
                _ => false,
            }
        }
    };
}
msm_access!(
    Msg1071, Msg1072, Msg1073, Msg1074, Msg1075, Msg1076, Msg1077, Msg1081, Msg1082, Msg1083, Msg1084, Msg1085, Msg1086, Msg1087,
    Msg1091, Msg1092, Msg1093, Msg1094, Msg1095, Msg1096, Msg1097, Msg1101, Msg1102, Msg1103, Msg1104, Msg1105, Msg1106, Msg1107,
    Msg1111, Msg1112, Msg1113, Msg1114, Msg1115, Msg1116, Msg1117, Msg1121, Msg1122, Msg1123, Msg1124, Msg1125, Msg1126, Msg1127,
    Msg1131, Msg1132, Msg1133, Msg1134, Msg1135, Msg1136, Msg1137
);

pub fn msm_numbers() -> Vec<u16> {
    let mut v = vec![];
    for c in 0..7u16 {
        for k in 1..=7u16 {
            v.push(1070 + c * 10 + k);
        }
    }
    v
}
pub fn sig_table(number: u16) -> &'static [(u8, u8, char)] {
    match (number - 1070) / 10 {
        0 => SIG_GPS,
        1 => SIG_GLO,
        2 => SIG_GAL,
        3 => SIG_SBAS,
        4 => SIG_QZSS,
        5 => SIG_BDS,
        _ => SIG_NAVIC,
    }
}

const HDR_BITS: usize = 73;

/// deterministic bit fill for the data rows (xorshift), so that rows are distinguishable
fn fill_bits(seed: u64, n: usize) -> Vec<u8> {
    let mut x = seed | 1;
    let mut v = Vec::with_capacity(n);
    for _ in 0..n {
        x ^= x << 13;
        x ^= x >> 7;
        x ^= x << 17;
        v.push((x >> 24) as u8);
    }
    v
}

/// harness-written MSM payload per the standard: number, zero header, masks, filled rows
pub fn spec_payload(number: u16, sats: &[u8], sig_pos: &[u8], cells: &[(u8, u8)], fill_seed: u64) -> Vec<u8> {
    let mut p = fill_bits(fill_seed.wrapping_mul(0x9E3779B97F4A7C15) ^ number as u64, 1023);
    set_bits(&mut p, 0, 12, number as u64);
    set_bits(&mut p, 12, 61, 0);
    let mut sat_mask = 0u64;
    for &s in sats {
        sat_mask |= 1u64 << (64 - s as u32);
    }
    let mut sig_mask = 0u32;
    for &g in sig_pos {
        sig_mask |= 1u32 << (32 - g as u32);
    }
    set_bits(&mut p, HDR_BITS, 64, sat_mask);
    set_bits(&mut p, HDR_BITS + 64, 32, sig_mask as u64);
    let mut ss: Vec<u8> = sats.to_vec();
    ss.sort();
    let mut gs: Vec<u8> = sig_pos.to_vec();
    gs.sort();
    let ncell = ss.len() * gs.len();
    for (i, s) in ss.iter().enumerate() {
        for (j, g) in gs.iter().enumerate() {
            let on = cells.contains(&(*s, *g));
            set_bit(&mut p, HDR_BITS + 96 + i * gs.len() + j, on);
        }
    }
    let _ = ncell;
    p
}

fn perms(n: usize, all_upto: usize) -> Vec<Vec<usize>> {
    let id: Vec<usize> = (0..n).collect();
    if n <= 1 {
        return vec![id];
    }
    if n <= all_upto {
        // all permutations (Heap's algorithm, deterministic)
        let mut out = vec![];
        let mut a = id.clone();
        let mut c = vec![0usize; n];
        out.push(a.clone());
        let mut i = 0;
        while i < n {
            if c[i] < i {
                if i % 2 == 0 {
                    a.swap(0, i);
                } else {
                    a.swap(c[i], i);
                }
                out.push(a.clone());
                c[i] += 1;
                i = 0;
            } else {
                c[i] = 0;
                i += 1;
            }
        }
        return out;
    }
    let mut out = vec![id.clone()];
    let mut r = id.clone();
    r.reverse();
    out.push(r);
    let mut rot = id.clone();
    rot.rotate_left(1);
    out.push(rot);
    let mut s = id.clone();
    s.swap(0, 1);
    out.push(s);
    let mut s = id.clone();
    s.swap(n - 1, n - 2);
    out.push(s);
    let inter: Vec<usize> = (0..n).step_by(2).chain((1..n).step_by(2)).collect();
    out.push(inter);
    out
}

fn build(m: &Message) -> Result<Result<Vec<u8>, String>, PanicRec> {
    catch(|| {
        let mut b = MessageBuilder::new();
        b.build_message(m).map(|x| x.to_vec()).map_err(|e| format!("{:?}", e))
    })
}
fn decode_payload(p: &[u8], len: usize) -> Result<Message, PanicRec> {
    let f = make_frame(&p[..len]);
    catch(|| MessageFrame::new(&f).map(|fr| fr.get_message()).unwrap_or(Message::Corrupt))
}

fn needed_len(number: u16, nsat: usize, ncell: usize, maskcells: usize) -> usize {
    // generous: header + masks + rows of at most 36 / 80 bits (MSM7), rounded up, capped
    let _ = number;
    ((HDR_BITS + 96 + maskcells + nsat * 40 + ncell * 84) / 8 + 4).min(1023)
}

/// one admissible triple (S, G, C): masks, order independence, canonical order of the decoded lists
fn check_triple(rep: &mut Report, number: u16, sats: &[u8], sig_pos: &[u8], cells: &[(u8, u8)], all_perms_upto: usize, tag: &str) {
    let table = sig_table(number);
    let desc = || json!({"kind":"msm_triple","number":number,"sats":sats,"signal_mask_positions":sig_pos,"cells":cells.iter().map(|c| json!([c.0,c.1])).collect::<Vec<_>>(),"scope":tag});
    let fail = |rep: &mut Report, key: &str, what: String| {
        rep.violation("C10", format!("{}:{}", number, key), format!("msg {} S={:?} G={:?} C={:?}: {}", number, sats, sig_pos, cells, what), (sats.len() * 100 + cells.len()) as u64, desc());
    };
    rep.states += 1;
    let p = spec_payload(number, sats, sig_pos, cells, cells.len() as u64 * 131 + sats.len() as u64);
    let len = needed_len(number, sats.len(), cells.len(), sats.len() * sig_pos.len());
    rep.transitions += 1;
    let m = match decode_payload(&p, len) {
        Err(pn) => return fail(rep, &format!("decode-panic:{}", pn.location), format!("decoder panicked: {}", pn.message)),
        Ok(m) => m,
    };
    let Some((dsats, dcells)) = ids(&m) else {
        return fail(rep, "decode-not-typed", format!("harness-written frame decodes to {}", outcome_class(&m)));
    };
    // decoding returns the same sets, satellites ascending, cells ascending by (satellite, mask position)
    let mut ss: Vec<u8> = sats.to_vec();
    ss.sort();
    let mut exp_cells: Vec<(u8, u8, char)> = vec![];
    let mut cs: Vec<(u8, u8)> = cells.to_vec();
    cs.sort();
    for (s, g) in &cs {
        let e = table.iter().find(|e| e.0 == *g).unwrap();
        exp_cells.push((*s, e.1, e.2));
    }
    if dsats != ss {
        return fail(rep, "decoded-sat-list", format!("decoded satellite list {:?}, expected {:?}", dsats, ss));
    }
    if dcells != exp_cells {
        return fail(rep, "decoded-cell-list", format!("decoded cell list {:?}, expected {:?}", dcells, exp_cells));
    }
    // canonical encoding
    rep.transitions += 1;
    let f1 = match build(&m) {
        Err(pn) => return fail(rep, &format!("build-panic:{}", pn.location), format!("encoder panicked: {}", pn.message)),
        Ok(Err(e)) => return fail(rep, &format!("admissible-refused:{}", e), format!("admissible message refused: {}", e)),
        Ok(Ok(f)) => f,
    };
    // masks on the wire (payload bits 73.. ) must equal the harness-written ones
    let nmask = 96 + sats.len() * sig_pos.len();
    let pl = &f1[3..f1.len() - 3];
    if pl.len() * 8 < HDR_BITS + nmask {
        return fail(rep, "frame-too-short", "built frame shorter than its masks".into());
    }
    for i in 0..nmask {
        if get_bit(pl, HDR_BITS + i) != get_bit(&p, HDR_BITS + i) {
            let which = if i < 64 { "satellite-mask" } else if i < 96 { "signal-mask" } else { "cell-mask" };
            return fail(rep, &format!("wire-{}", which), format!("{} bit {} differs from the standard layout: built {} expected {}", which, i, hex(&pl[9..(HDR_BITS + nmask + 7) / 8]), hex(&p[9..(HDR_BITS + nmask + 7) / 8])));
        }
    }
    rep.outcome("masks-as-standard");
    // rows carried by the right satellite / cell: decode the canonical frame again and compare rows by key
    let m1 = match catch(|| MessageFrame::new(&f1).map(|fr| fr.get_message()).unwrap_or(Message::Corrupt)) {
        Ok(m1) => m1,
        Err(pn) => return fail(rep, &format!("decode-panic:{}", pn.location), format!("decoder panicked: {}", pn.message)),
    };
    if let (Some((r0s, r0c)), Some((r1s, r1c))) = (rows(&m), rows(&m1)) {
        if r0s.len() != r1s.len() || r0c.len() != r1c.len() {
            return fail(rep, "rows-count", "re-decoded message has a different number of rows".into());
        }
        for (i, r) in r1s.iter().enumerate() {
            if *r != r0s[i] {
                return match r0s.iter().position(|x| x == r) {
                    Some(j) => fail(rep, "sat-row-misplaced", format!("satellite row {} carries the data of row {}", i, j)),
                    None => fail(rep, "sat-row-changed", format!("satellite row {} changes through encode/decode: {} became {}", i, r0s[i], r)),
                };
            }
        }
        for (i, r) in r1c.iter().enumerate() {
            if *r != r0c[i] {
                return match r0c.iter().position(|x| x == r) {
                    Some(j) => fail(rep, "cell-row-misplaced", format!("cell row {} carries the data of row {}", i, j)),
                    None => fail(rep, "cell-row-changed", format!("cell row {} changes through encode/decode: {} became {}", i, r0c[i], r)),
                };
            }
        }
    }
    // every explored caller order gives the same frame
    let ps = perms(dsats.len(), all_perms_upto);
    let pc = perms(dcells.len(), all_perms_upto);
    let combos: Vec<(usize, usize)> = if ps.len() * pc.len() <= 36 {
        (0..ps.len()).flat_map(|a| (0..pc.len()).map(move |b| (a, b))).collect()
    } else {
        // each satellite permutation with identity cells, each cell permutation with identity sats, and the diagonal
        let mut v: Vec<(usize, usize)> = (0..ps.len()).map(|a| (a, 0)).collect();
        v.extend((0..pc.len()).map(|b| (0, b)));
        v.extend((0..ps.len().min(pc.len())).map(|a| (a, a)));
        v.sort();
        v.dedup();
        v
    };
    for (a, b) in combos {
        if a == 0 && b == 0 {
            continue;
        }
        let mut mp = m.clone();
        apply(&mut mp, Op::PermSats(&ps[a]));
        apply(&mut mp, Op::PermCells(&pc[b]));
        rep.transitions += 1;
        match build(&mp) {
            Err(pn) => return fail(rep, &format!("build-panic:{}", pn.location), format!("encoder panicked on a permuted message: {}", pn.message)),
            Ok(Err(e)) => return fail(rep, &format!("permuted-refused:{}", e), format!("permuted message refused: {} (sat perm {:?}, cell perm {:?})", e, ps[a], pc[b])),
            Ok(Ok(f2)) => {
                if f2 != f1 {
                    return fail(rep, "order-dependent", format!("caller order changes the frame (sat perm {:?}, cell perm {:?})", ps[a], pc[b]));
                }
            }
        }
        rep.traces += 1;
    }
    rep.traces += 1;
}

/// build a typed base message with the given sats and per-sat single cell on signal index (i % nsig)
fn base_message(number: u16, sats: &[u8], sig_pos: &[u8], cells: &[(u8, u8)]) -> Option<Message> {
    let p = spec_payload(number, sats, sig_pos, cells, 7);
    let len = needed_len(number, sats.len(), cells.len(), sats.len() * sig_pos.len());
    let m = decode_payload(&p, len).ok()?;
    ids(&m)?;
    Some(m)
}

fn expect_err(rep: &mut Report, number: u16, m: &Message, want: &str, class: &str) {
    rep.transitions += 1;
    rep.traces += 1;
    let desc = || json!({"kind":"msm_invalid","number":number,"class":class,"ids":ids(m).map(|(s,c)| json!({"sats":s,"cells":c.iter().map(|x| json!([x.0,x.1,x.2.to_string()])).collect::<Vec<_>>()}))});
    match build(m) {
        Ok(Err(e)) if e == want => rep.outcome(&format!("rejected-{}", want)),
        Ok(Err(e)) => rep.violation("C10", format!("{}:{}:wrong-error:{}", number, class, e), format!("msg {}: invalid input class '{}' rejected with {} instead of {}", number, class, e, want), 1, desc()),
        Ok(Ok(f)) => {
            let back = catch(|| MessageFrame::new(&f).map(|fr| outcome_class(&fr.get_message())).unwrap_or("invalid frame"));
            rep.violation("C10", format!("{}:{}:encoded", number, class), format!("msg {}: invalid input class '{}' was encoded (frame of {} bytes, decoding to {:?}) instead of being rejected with {}", number, class, f.len(), back, want), 1, desc())
        }
        Err(pn) => rep.violation("C10", format!("{}:{}:panic:{}", number, class, pn.location), format!("msg {}: invalid input class '{}' panics: {}", number, class, pn.message), 1, desc()),
    }
}

const PARTS: u32 = 8;

fn dim_is_3(tier: Tier, number: u16) -> bool {
    !(tier.thorough() || number == 1074 || number % 10 == 7)
}

fn check_type(rep: &mut Report, number: u16, tier: Tier, part: u32) {
    let table = sig_table(number);
    let nsig = table.len();
    // signal choices: first, second, a middle, last recognised signal
    let mut gpos: Vec<u8> = vec![table[0].0, table[1.min(nsig - 1)].0, table[nsig / 2].0, table[nsig - 1].0];
    gpos.sort();
    gpos.dedup();
    let spos: [u8; 4] = [1, 2, 33, 64];
    if dim_is_3(tier, number) && gpos.len() == 4 {
        // 3x3 scope: first, middle and last recognised signal (the last one sits at the highest mask position)
        gpos = vec![gpos[0], gpos[2], gpos[3]];
    }
    // quick: 3x3 scope for every type, 4x4 for 1074 and the MSM7 type of every constellation; thorough: 4x4 everywhere
    let dim = if tier.thorough() || number == 1074 || number % 10 == 7 { 4usize } else { 3usize };
    let gd = dim.min(gpos.len());
    // all non-zero dim x gd incidence matrices
    let nbits = dim * gd;
    watch_enter(0x1000_0000 + number as u64);
    for mat in 1u32..(1u32 << nbits) {
        if mat % PARTS != part {
            continue;
        }
        if mat % 4096 < PARTS {
            watch_enter(0x1000_0000 + number as u64);
        }
        let mut cells: Vec<(u8, u8)> = vec![];
        let mut sats: Vec<u8> = vec![];
        let mut sigs: Vec<u8> = vec![];
        for i in 0..dim {
            for j in 0..gd {
                if (mat >> (i * gd + j)) & 1 == 1 {
                    let s = if dim == 3 { [1u8, 33, 64][i] } else { spos[i] };
                    cells.push((s, gpos[j]));
                    if !sats.contains(&s) {
                        sats.push(s);
                    }
                    if !sigs.contains(&gpos[j]) {
                        sigs.push(gpos[j]);
                    }
                }
            }
        }
        check_triple(rep, number, &sats, &sigs, &cells, 4, "small-scope");
    }
    if part != 0 {
        watch_leave();
        return;
    }
    // the empty triple (no satellites, no signals, no cells): all three masks zero, decodes to empty lists
    check_triple(rep, number, &[], &[], &[], 1, "empty");
    // boundary scopes
    let all_sats: Vec<u8> = (1..=64).collect();
    // (satellites, signals); the last entries use every recognised signal of the constellation
    let mut shapes: Vec<(usize, usize)> = vec![(1, 1), (64, 1), (32, 2), (16, 4), (8, 8), (4, 16), (5, 12), (21, 3), (9, 7), (63, 1), (2, 32), (3, 17), (3, 18), (3, 19), (1, 19), (4, 15), (4, 13)];
    shapes.push((64 / nsig, nsig));
    shapes.push((1, nsig));
    shapes.sort();
    shapes.dedup();
    for (ns, ng) in shapes {
        if ng > nsig {
            continue;
        }
        for variant in 0..3 {
            // satellites: lowest ns, highest ns, spread
            let sats: Vec<u8> = match variant {
                0 => all_sats[..ns].to_vec(),
                1 => all_sats[64 - ns..].to_vec(),
                _ => (0..ns).map(|i| (1 + i * 64 / ns) as u8).collect(),
            };
            let sigs: Vec<u8> = if variant == 1 { table[nsig - ng..].iter().map(|e| e.0).collect() } else { table[..ng].iter().map(|e| e.0).collect() };
            // full and "diagonal" cell sets (every row and column used)
            let full: Vec<(u8, u8)> = sats.iter().flat_map(|s| sigs.iter().map(move |g| (*s, *g))).collect();
            let n = ns.max(ng);
            let diag: Vec<(u8, u8)> = (0..n).map(|i| (sats[i % ns], sigs[i % ng])).collect();
            if full.len() <= 64 {
                check_triple(rep, number, &sats, &sigs, &full, 3, "boundary-full");
            }
            check_triple(rep, number, &sats, &sigs, &diag, 3, "boundary-diagonal");
        }
    }
    // invalid classes, one at a time on valid bases
    let g0 = table[0].0;
    let g1 = table[1.min(nsig - 1)].0;
    let bases: Vec<(Vec<u8>, Vec<u8>, Vec<(u8, u8)>)> = vec![
        (vec![1], vec![g0], vec![(1, g0)]),
        (vec![2, 33, 64], vec![g0, g1], if g0 != g1 { vec![(2, g0), (33, g1), (64, g0)] } else { vec![(2, g0), (33, g0), (64, g0)] }),
    ];
    for (bs, bg, bc) in &bases {
        let mut bg = bg.clone();
        bg.dedup();
        let Some(m) = base_message(number, bs, &bg, bc) else {
            rep.violation("C10", format!("{}:base-not-typed", number), format!("msg {}: valid base frame does not decode to a typed message", number), 0, json!({"kind":"msm_triple","number":number,"sats":bs,"signal_mask_positions":bg,"cells":bc.iter().map(|c| json!([c.0,c.1])).collect::<Vec<_>>()}));
            continue;
        };
        for bad in [0u8, 65, 255] {
            let mut x = m.clone();
            apply(&mut x, Op::SetSatId(0, bad));
            expect_err(rep, number, &x, "InvalidSatelliteId", "satellite id out of 1..=64 in the satellite list");
            let mut x = m.clone();
            apply(&mut x, Op::SetCellSat(0, bad));
            expect_err(rep, number, &x, "InvalidSatelliteId", "satellite id out of 1..=64 in the cell list");
        }
        for (b, a) in [(0u8, '?'), (1, 'c'), (9, 'Z'), (255, '\u{10FFFF}')] {
            if table.iter().any(|e| e.1 == b && e.2 == a) {
                continue;
            }
            let mut x = m.clone();
            apply(&mut x, Op::SetCellSig(0, b, a));
            expect_err(rep, number, &x, "InvalidSignalId", "unrecognised signal");
        }
        let mut x = m.clone();
        apply(&mut x, Op::DupSat(0));
        expect_err(rep, number, &x, "DuplicateSatellite", "duplicate satellite");
        let mut x = m.clone();
        apply(&mut x, Op::DupCell(0));
        expect_err(rep, number, &x, "DuplicateSatelliteSignal", "duplicate cell");
        if bs.len() > 1 {
            let mut x = m.clone();
            apply(&mut x, Op::RemoveSat(1));
            expect_err(rep, number, &x, "SatelliteMismatch", "satellite only in the cell list");
            let mut x = m.clone();
            apply(&mut x, Op::RemoveCell(1));
            expect_err(rep, number, &x, "SatelliteMismatch", "satellite only in the satellite list");
            // satellites listed, but no signal cell at all
            let mut x = m.clone();
            apply(&mut x, Op::ClearCells);
            expect_err(rep, number, &x, "SatelliteMismatch", "satellites without any signal cell");
        } else {
            let mut x = m.clone();
            apply(&mut x, Op::SetCellSat(0, 2));
            expect_err(rep, number, &x, "SatelliteMismatch", "satellite rows disagree with cell rows");
        }
    }
    // a satellite listed twice on grids at / near the 64-cell limit (the duplicate must be reported as such,
    // not as a cell-count problem)
    for (ns, ng) in [(64usize, 1usize), (16, 4), (8, 8), (12, 5), (32, 2), (63, 1)] {
        if ng > nsig {
            continue;
        }
        let sats: Vec<u8> = (1..=ns as u8).collect();
        let sigs: Vec<u8> = table[..ng].iter().map(|e| e.0).collect();
        let diag: Vec<(u8, u8)> = (0..ns.max(ng)).map(|i| (sats[i % ns], sigs[i % ng])).collect();
        if let Some(m) = base_message(number, &sats, &sigs, &diag) {
            let mut x = m.clone();
            if apply(&mut x, Op::DupSat(ns / 2)) {
                expect_err(rep, number, &x, "DuplicateSatellite", &format!("duplicate satellite on a {}x{} grid", ns, ng));
            } else {
                // the list is full (64 satellites): overwrite one entry with a copy of another instead
                let mut y = m.clone();
                apply(&mut y, Op::SetSatId(ns - 1, sats[0]));
                expect_err(rep, number, &y, "DuplicateSatellite", &format!("duplicate satellite on a full {}x{} grid", ns, ng));
            }
        }
    }
    // a full grid in which one cell is replaced by a repeat of another (list length = |S|x|G|)
    for (ns, ng) in [(2usize, 2usize), (3, 2), (2, 4), (8, 8)] {
        if ng > nsig {
            continue;
        }
        let sats: Vec<u8> = (0..ns).map(|i| (1 + i * 9) as u8).collect();
        let sigs: Vec<u8> = table[..ng].iter().map(|e| e.0).collect();
        let full: Vec<(u8, u8)> = sats.iter().flat_map(|s| sigs.iter().map(move |g| (*s, *g))).collect();
        if let Some(m) = base_message(number, &sats, &sigs, &full) {
            // last cell becomes a repeat of the first cell of its satellite (its own signal stays in use by other rows)
            let last = full.len() - 1;
            let e = table[0];
            let mut x = m.clone();
            apply(&mut x, Op::SetCellSig(last, e.1, e.2));
            expect_err(rep, number, &x, "DuplicateSatelliteSignal", &format!("full {}x{} grid with one cell repeated and one missing", ns, ng));
            // and the first cell repeated at the end position of another satellite
            let mut y = m.clone();
            apply(&mut y, Op::SetCellSat(last, sats[0]));
            if ns > 2 || ng > 1 {
                // satellite sats[ns-1] keeps its other cells when ng > 1; otherwise this is a mismatch, skip
                if ng > 1 {
                    expect_err(rep, number, &y, "DuplicateSatelliteSignal", &format!("full {}x{} grid with one cell moved onto an occupied cell", ns, ng));
                }
            }
        }
    }
    // more than 64 mask cells: ns satellites with one cell each, spread over ng signals
    for (ns, ng) in [(33usize, 2usize), (64, 2), (17, 4), (9, 8), (13, 5), (5, 13), (22, 3), (64, 4), (52, 5), (32, 8), (16, 16), (64, 12), (43, 6), (64, 32)] {
        if ng > nsig {
            continue;
        }
        let sats: Vec<u8> = (1..=ns as u8).collect();
        let cells: Vec<(u8, u8)> = sats.iter().map(|s| (*s, g0)).collect();
        let n_extra_cells = if ng > ns { ng - ns } else { 0 };
        let Some(mut m) = base_message(number, &sats, &[g0], &cells) else { continue };
        // spread the cells over ng signals (mask would need ns*ng > 64 cells)
        for i in 0..ns {
            let e = table[i % ng];
            apply(&mut m, Op::SetCellSig(i, e.1, e.2));
        }
        // when ng > ns add further cells on satellite 1 so that all ng signals occur
        let mut ok = true;
        for k in 0..n_extra_cells {
            if !apply(&mut m, Op::DupCell(0)) {
                ok = false;
                break;
            }
            let idx = ns + k;
            let e = table[(ns + k) % ng];
            apply(&mut m, Op::SetCellSig(idx, e.1, e.2));
        }
        if ok {
            expect_err(rep, number, &m, "InvalidSatelliteSignalCount", &format!("more than 64 mask cells ({}x{})", ns, ng));
        }
    }
    watch_leave();
}

pub fn c10(ctx: &Ctx) -> (Report, Meta) {
    let nums = msm_numbers();
    let tier = ctx.tier;
    let parts = par_shards(nums.len() * PARTS as usize, |i| {
        let mut rep = Report::new();
        check_type(&mut rep, nums[i / PARTS as usize], tier, (i % PARTS as usize) as u32);
        rep
    });
    let mut rep = Report::new();
    for p in parts {
        rep.merge(p);
    }
    rep.distinct_nontrivial = rep.states;
    rep.sample(json!({"number":1077,"sats":[64,1],"signal_mask_positions":[2,10],"cells":[[1,2],[64,10]],"caller_orders":"all permutations of both lists"}));
    rep.sample(json!({"number":1087,"class":"more than 64 mask cells (17x4)","expect":"InvalidSatelliteSignalCount"}));
    let meta = Meta {
        rule: "49 MSM types: every non-zero dim x dim incidence matrix over satellites {1,2,33,64} ({1,33,64} for dim 3) and {first, second, middle, last} recognised signal = every admissible (S,G,C) in that scope; boundary shapes up to 64 cells (full and diagonal cell sets, low/high/spread satellites); the harness writes the frame per the standard (masks at payload bits 73/137/169, row-major cell mask, filled rows), the real decoder must return S ascending and C ascending by (satellite, mask position) with the standard descriptors; the real encoder must reproduce the harness-written masks bit for bit, keep every row with its satellite/cell, and give the identical frame for every explored caller order (all permutations up to 4 elements; identity, reverse, rotate, swaps, interleave above). Invalid classes one at a time must return the matching error. states = (type, S, G, C) triples; transitions = decode/encode calls".into(),
        exhaustive: true,
        bounds: json!({"small_scope_dim": if tier.thorough() {"4 for all 49 types"} else {"3 for all types, 4 for 1074 and the MSM7 type of each constellation"}, "permutations":"all for <=4 elements, 6 structured ones above"}),
        assumptions: vec!["signal mask positions of the recognised descriptors are the RTCM 10403.3 tables typed into mc-core (also checked by C18)".into()],
    };
    (rep, meta)
}

pub fn replay(kind: &str, r: &serde_json::Value) -> Option<String> {
    if kind != "msm_triple" {
        return None;
    }
    let number = r["number"].as_u64()? as u16;
    let sats: Vec<u8> = r["sats"].as_array()?.iter().map(|x| x.as_u64().unwrap() as u8).collect();
    let sigs: Vec<u8> = r["signal_mask_positions"].as_array()?.iter().map(|x| x.as_u64().unwrap() as u8).collect();
    let cells: Vec<(u8, u8)> = r["cells"].as_array()?.iter().map(|x| (x[0].as_u64().unwrap() as u8, x[1].as_u64().unwrap() as u8)).collect();
    let mut rep = Report::new();
    check_triple(&mut rep, number, &sats, &sigs, &cells, 4, "replay");
    let mut s = format!("msg {} S={:?} G={:?} C={:?}\n", number, sats, sigs, cells);
    for (_, v) in rep.viol {
        s.push_str(&format!("violation: {}\n", v.what));
    }
    if rep.viol_total == 0 {
        s.push_str("no violation\n");
    }
    Some(s)
}

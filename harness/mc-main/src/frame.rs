//! E-frame: byte-level enumeration against MessageFrame::new, next_msg_frame, MsgFrameIter
//! (C03, C04, C05, C06, C13, C14).

use crate::common::*;
use mc_core::*;
use rtcm_rs::prelude::*;
use serde_json::json;
use std::collections::{BTreeSet, HashSet};

fn fill(kind: usize, l: usize) -> Vec<u8> {
    match kind {
        0 => (0..l).map(|i| (i * 7 + 1) as u8).collect(), // ramp (hits D3 regularly)
        1 => vec![0xFF; l],
        2 => vec![0x00; l],
        _ => vec![0xD3; l],
    }
}
const FILL_NAMES: [&str; 4] = ["ramp", "ff", "00", "d3"];

// ---------------------------------------------------------------------------------------------
// C03

fn c03_check(rep: &mut Report, s: &[u8], what: &str) {
    rep.transitions += 1;
    rep.traces += 1;
    let obs = match catch(|| observe_frame(s)) {
        Ok(o) => o,
        Err(p) => {
            rep.outcome("panic");
            rep.violation("C03", panic_key(&p, what), format!("MessageFrame::new panicked: {} ({})", p.message, what), s.len() as u64,
                json!({"kind":"frame_new","bytes":hex(s)}));
            return;
        }
    };
    let cls = if s.is_empty() { Class::Incomplete } else { classify(s) };
    let ok = match (cls, &obs) {
        (Class::Valid(n), FrameObs::Ok { frame_len, data_len, crc, data_ok, frame_ok, .. }) => {
            rep.outcome("accepted");
            *frame_len == n && *data_len == n - 6 && *crc == crc24q(&s[..n - 3]) && *data_ok && *frame_ok
        }
        (Class::Valid(_), _) => false,
        (Class::Incomplete, FrameObs::Incomplete) => {
            rep.outcome("incomplete");
            true
        }
        (Class::Incomplete, FrameObs::NotValid) if s.is_empty() || s[0] != 0xD3 => {
            rep.outcome("rejected-no-preamble");
            true
        }
        (Class::Invalid, FrameObs::NotValid) => {
            rep.outcome(if s[0] == 0xD3 { "not-valid-crc" } else { "rejected-no-preamble" });
            true
        }
        (Class::Invalid, FrameObs::Incomplete) if s[0] != 0xD3 => {
            rep.outcome("rejected-no-preamble");
            true
        }
        _ => false,
    };
    if !ok {
        rep.violation(
            "C03",
            format!("accept:{}:{:?}-vs-{}", what, cls, match &obs { FrameObs::Ok { .. } => "Ok".to_string(), o => format!("{:?}", o) }),
            format!("{}: reference says {:?}, MessageFrame::new says {:?} (len {})", what, cls, obs, s.len()),
            s.len() as u64,
            json!({"kind":"frame_new","bytes":hex(s),"expected":format!("{:?}",cls),"observed":format!("{:?}",obs)}),
        );
    }
}

pub fn c03(ctx: &Ctx) -> (Report, Meta) {
    let fills: Vec<usize> = if ctx.tier.thorough() { vec![0, 1, 2, 3] } else { vec![2, 0] };
    let fills2 = fills.clone();
    let parts = par_shards(1024, move |l| {
        let mut rep = Report::new();
        watch_enter(0x0300_0000 + l as u64);
        for &fk in &fills2 {
            let payload = fill(fk, l);
            let f = make_frame(&payload);
            rep.states += 1;
            if l % 257 == 3 && fk == 0 {
                rep.sample(json!({"L": l, "fill": FILL_NAMES[fk], "frame_prefix": hex(&f[..f.len().min(12)])}));
            }
            c03_check(&mut rep, &f, "valid");
            // reserved bits: all 63 non-zero patterns, CRC recomputed over the header actually sent
            for r in 1..64u8 {
                let fr = make_frame_r(&payload, r);
                c03_check(&mut rep, &fr, "reserved-bits");
            }
            // reserved bits set without recomputing the CRC: must be rejected
            for r in [1u8, 32, 63] {
                let mut fr = f.clone();
                fr[1] |= r << 2;
                c03_check(&mut rep, &fr, "reserved-bits-stale-crc");
            }
            // every truncation
            for t in 0..f.len() {
                c03_check(&mut rep, &f[..t], "truncation");
            }
            // first byte != D3: all 255 values, CRC recomputed and not
            for b in 0..=255u8 {
                if b == 0xD3 {
                    continue;
                }
                let mut g = f.clone();
                g[0] = b;
                c03_check(&mut rep, &g, "preamble-stale-crc");
                let n = g.len();
                let c = crc24q(&g[..n - 3]);
                g[n - 3] = (c >> 16) as u8;
                g[n - 2] = (c >> 8) as u8;
                g[n - 1] = c as u8;
                c03_check(&mut rep, &g, "preamble-fresh-crc");
            }
            // CRC bytes: each single bit and each single byte value
            let n = f.len();
            for bit in 0..24 {
                let mut g = f.clone();
                g[n - 3 + bit / 8] ^= 0x80 >> (bit % 8);
                c03_check(&mut rep, &g, "crc-bit");
            }
            for pos in 0..3 {
                for v in 0..=255u8 {
                    if v == f[n - 3 + pos] {
                        continue;
                    }
                    let mut g = f.clone();
                    g[n - 3 + pos] = v;
                    c03_check(&mut rep, &g, "crc-byte");
                }
            }
            // length field perturbed, with and without CRC recomputation (buffer padded so that
            // the announced extent is present)
            for nl in [l.wrapping_sub(1) & 0x3ff, (l + 1) & 0x3ff, l ^ 0x200, l ^ 0x100, l ^ 1] {
                let mut g = f.clone();
                g[1] = (g[1] & 0xFC) | ((nl >> 8) as u8 & 3);
                g[2] = nl as u8;
                c03_check(&mut rep, &g, "length-stale");
                let mut g2 = g.clone();
                g2.resize(nl + 6, 0xAA);
                c03_check(&mut rep, &g2, "length-stale-padded");
                let c = crc24q(&g2[..nl + 3]);
                g2[nl + 3] = (c >> 16) as u8;
                g2[nl + 4] = (c >> 8) as u8;
                g2[nl + 5] = c as u8;
                c03_check(&mut rep, &g2, "length-fresh-crc");
            }
            // trailing bytes
            let longs: Vec<usize> = if l <= 2 || l == 19 || l == 1023 { vec![65536 - (l + 6), 65536 - (l + 6) - 1, 65536, 131072 - (l + 6)] } else { vec![] };
            for extra in [1usize, 40].into_iter().chain(longs) {
                let mut g = f.clone();
                g.extend(std::iter::repeat(0x5A).take(extra));
                c03_check(&mut rep, &g, "suffix");
            }
        }
        watch_leave();
        rep
    });
    let mut rep = Report::new();
    for p in parts {
        rep.merge(p);
    }
    // every byte string of length <= 4 (5 in thorough) over {D3,00,01,FF}
    let maxlen = ctx.tier.pick(4, 6);
    let alpha = [0xD3u8, 0x00, 0x01, 0xFF];
    let mut cur: Vec<Vec<u8>> = vec![vec![]];
    for _ in 0..=maxlen {
        let mut next = vec![];
        for s in &cur {
            c03_check(&mut rep, s, "short-string");
            rep.states += 1;
            for a in alpha {
                let mut t = s.clone();
                t.push(a);
                next.push(t);
            }
        }
        cur = next;
    }
    rep.distinct_nontrivial = rep.states;
    let meta = Meta {
        rule: "for every L in 0..=1023 and payload fill: the valid frame, all 63 reserved-bit patterns, every truncation, every wrong first byte (CRC stale and fresh), every single-bit and single-byte change of the CRC, perturbed length fields, trailing bytes; plus every byte string over {D3,00,01,FF} up to the stated length. states = distinct base frames + short strings; transitions = MessageFrame::new calls, each compared with the reference predicate (bit-wise CRC-24Q)".into(),
        exhaustive: true,
        bounds: json!({"L":"0..=1023","fills":fills.iter().map(|f|FILL_NAMES[*f]).collect::<Vec<_>>(),"short_string_maxlen":maxlen}),
        assumptions: vec!["reference CRC-24Q is the bit-wise definition (generator 0x1864CFB, init 0), checked against the CRC catalogue check value and a published 1005 frame".into()],
    };
    (rep, meta)
}

// ---------------------------------------------------------------------------------------------
// C04

struct C04<'a> {
    rep: &'a mut Report,
}
impl<'a> C04<'a> {
    /// `buf` is the damaged frame (damage applied in place by the caller)
    #[inline]
    fn check(&mut self, buf: &[u8], desc: &dyn Fn() -> serde_json::Value, class: &'static str) {
        self.rep.transitions += 1;
        let r = catch(|| {
            let a = match MessageFrame::new(buf) {
                Err(RtcmError::NotValid) => 0u8,
                Err(RtcmError::Incomplete) => 1,
                Err(_) => 2,
                Ok(_) => 3,
            };
            let (c, f) = next_msg_frame(buf);
            let delivered_at0 = match f {
                Some(f) => c == f.frame_len(),
                None => false,
            };
            (a, delivered_at0)
        });
        match r {
            Ok((0, false)) => {}
            Ok((a, d)) => {
                self.rep.violation(
                    "C04",
                    format!("{}:new={}:scanner_delivered={}", class, ["NotValid", "Incomplete", "OtherErr", "Ok"][a as usize], d),
                    format!("damaged frame ({}) not rejected as NotValid / delivered by the scanner", class),
                    buf.len() as u64,
                    json!({"kind":"damaged_frame","damaged":hex(buf),"damage":desc()}),
                );
            }
            Err(p) => {
                self.rep.violation("C04", panic_key(&p, class), format!("panic on damaged frame: {}", p.message), buf.len() as u64,
                    json!({"kind":"damaged_frame","damaged":hex(buf),"damage":desc()}));
            }
        }
    }
}

/// flippable bit index -> absolute bit position in the frame. Flippable: 6 reserved bits,
/// payload bits, 24 CRC bits (not the preamble, not the 10 length bits).
#[inline]
fn flip_pos(i: usize) -> usize {
    if i < 6 {
        8 + i
    } else {
        24 + (i - 6)
    }
}
#[inline]
fn n_flippable(l: usize) -> usize {
    6 + 8 * l + 24
}
#[inline]
fn flip(buf: &mut [u8], i: usize) {
    let p = flip_pos(i);
    buf[p / 8] ^= 0x80 >> (p % 8);
}

#[derive(Clone, Debug)]
enum T4 {
    Single,
    PairsAll(usize, usize), // i range
    PairsNear,
    Burst(usize, bool),   // burst length, walking-1 interiors too
    BurstFull(usize),     // every interior pattern
    Weight3,
}

fn c04_task(rep: &mut Report, l: usize, fk: usize, task: &T4) {
    let f0 = make_frame(&fill(fk, l));
    let nb = n_flippable(l);
    let mut buf = f0.clone();
    let id = 0x0400_0000 + l as u64;
    watch_enter(id);
    let mut c = C04 { rep };
    match task {
        T4::Single => {
            for i in 0..nb {
                flip(&mut buf, i);
                c.check(&buf, &|| json!({"L":l,"fill":FILL_NAMES[fk],"bits":[flip_pos(i)]}), "single-bit");
                flip(&mut buf, i);
            }
            c.rep.outcome_n("single-bit", nb as u64);
        }
        T4::PairsAll(lo, hi) => {
            let mut n = 0u64;
            for i in *lo..*hi {
                watch_enter(id);
                flip(&mut buf, i);
                for j in i + 1..nb {
                    flip(&mut buf, j);
                    c.check(&buf, &|| json!({"L":l,"fill":FILL_NAMES[fk],"bits":[flip_pos(i),flip_pos(j)]}), "bit-pair");
                    flip(&mut buf, j);
                    n += 1;
                }
                flip(&mut buf, i);
            }
            c.rep.outcome_n("bit-pair-all", n);
        }
        T4::PairsNear => {
            let mut n = 0u64;
            for i in 0..nb {
                if i % 256 == 0 {
                    watch_enter(id);
                }
                flip(&mut buf, i);
                for j in i + 1..nb.min(i + 65) {
                    flip(&mut buf, j);
                    c.check(&buf, &|| json!({"L":l,"fill":FILL_NAMES[fk],"bits":[flip_pos(i),flip_pos(j)]}), "bit-pair");
                    flip(&mut buf, j);
                    n += 1;
                }
                flip(&mut buf, i);
            }
            let edge: Vec<usize> = (0..16).chain(nb - 40..nb).collect();
            for (a, &i) in edge.iter().enumerate() {
                for &j in &edge[a + 1..] {
                    if j <= i + 64 {
                        continue;
                    }
                    flip(&mut buf, i);
                    flip(&mut buf, j);
                    c.check(&buf, &|| json!({"L":l,"fill":FILL_NAMES[fk],"bits":[flip_pos(i),flip_pos(j)]}), "bit-pair");
                    flip(&mut buf, j);
                    flip(&mut buf, i);
                    n += 1;
                }
            }
            c.rep.outcome_n("bit-pair-near+edge", n);
        }
        T4::Burst(_, _) | T4::BurstFull(_) => {
            let (b, patterns): (usize, Vec<u32>) = match task {
                T4::BurstFull(b) => (*b, (0..(1u32 << (b - 2))).collect()),
                T4::Burst(b, walking) => {
                    let ib = b - 2;
                    let m = if ib == 0 { 0 } else { (1u32 << ib) - 1 };
                    let mut set = BTreeSet::new();
                    set.insert(0);
                    set.insert(m);
                    set.insert(0x55555555 & m);
                    set.insert(0xAAAAAAAA & m);
                    if *walking {
                        for k in 0..ib {
                            set.insert(1u32 << k);
                        }
                    }
                    (*b, set.into_iter().collect())
                }
                _ => unreachable!(),
            };
            if nb >= b {
                let ib = b - 2;
                let mut n = 0u64;
                for start in 0..=nb - b {
                    watch_enter(id);
                    for &pat in &patterns {
                        flip(&mut buf, start);
                        flip(&mut buf, start + b - 1);
                        for k in 0..ib {
                            if (pat >> k) & 1 == 1 {
                                flip(&mut buf, start + 1 + k);
                            }
                        }
                        c.check(&buf, &|| json!({"L":l,"fill":FILL_NAMES[fk],"burst_start_flippable_index":start,"burst_len":b,"interior":pat}), "burst");
                        n += 1;
                        flip(&mut buf, start);
                        flip(&mut buf, start + b - 1);
                        for k in 0..ib {
                            if (pat >> k) & 1 == 1 {
                                flip(&mut buf, start + 1 + k);
                            }
                        }
                    }
                }
                c.rep.outcome_n(if matches!(task, T4::BurstFull(_)) { "burst-every-interior" } else { "burst-structured" }, n);
            }
        }
        T4::Weight3 => {
            let mut n = 0u64;
            for i in 0..nb {
                for j in i + 1..nb {
                    for k in j + 1..nb {
                        flip(&mut buf, i);
                        flip(&mut buf, j);
                        flip(&mut buf, k);
                        c.check(&buf, &|| json!({"L":l,"fill":FILL_NAMES[fk],"bits":[flip_pos(i),flip_pos(j),flip_pos(k)]}), "weight-3");
                        flip(&mut buf, i);
                        flip(&mut buf, j);
                        flip(&mut buf, k);
                        n += 1;
                    }
                }
            }
            c.rep.outcome_n("weight-3", n);
        }
    }
    if buf != f0 {
        c.rep.notes.push("internal: buffer not restored".into());
    }
    watch_leave();
}

pub fn c04(ctx: &Ctx) -> (Report, Meta) {
    let thorough = ctx.tier.thorough();
    let td = testdata_frames();
    let mut tasks: Vec<(usize, usize, T4)> = vec![];
    for l in 0..1024usize {
        for fk in [0usize, 1] {
            let nb = n_flippable(l);
            tasks.push((l, fk, T4::Single));
            let long_all = thorough && fk == 0 && (l == 100 || l == 511 || l == 1023);
            if l <= if thorough { 40 } else { 16 } || long_all {
                // split so that each task has roughly <= 2M pairs
                let mut lo = 0;
                while lo < nb {
                    let mut hi = lo;
                    let mut work = 0usize;
                    while hi < nb && work < 2_000_000 {
                        work += nb - hi - 1;
                        hi += 1;
                    }
                    tasks.push((l, fk, T4::PairsAll(lo, hi)));
                    lo = hi;
                }
            } else if thorough || l % 122 == 17 || l == 100 || l == 511 || l == 1023 {
                tasks.push((l, fk, T4::PairsNear));
            }
            for b in 2..=24usize {
                if l <= 3 && b <= if thorough { 24 } else { 16 } {
                    tasks.push((l, fk, T4::BurstFull(b)));
                } else if thorough || l <= 16 || l % 128 == 63 || l == 1023 {
                    tasks.push((l, fk, T4::Burst(b, thorough && l % 16 == 0)));
                }
            }
            if l <= 2 {
                tasks.push((l, fk, T4::Weight3));
            }
        }
    }
    // big tasks first for better balance (deterministic order of results is kept by par_shards)
    let parts = par_shards(tasks.len(), |i| {
        let mut rep = Report::new();
        let (l, fk, t) = &tasks[tasks.len() - 1 - i];
        c04_task(&mut rep, *l, *fk, t);
        rep
    });
    let mut rep = Report::new();
    for p in parts {
        rep.merge(p);
    }
    rep.states = 2048;
    rep.extra.insert("tasks".into(), json!(tasks.len()));
    // all odd-weight patterns of the 30 flippable bits of the L=0 frame
    // (quick: all weight-5 patterns + all odd patterns of the 24 CRC bits... kept small)
    let f0 = make_frame(&[]);
    let shards = 256usize;
    let wbits = ctx.tier.pick(22u32, 30u32); // quick: all odd-weight patterns over the first 22 flippable bits... plus weight-5 below
    let parts = par_shards(shards, |sh| {
        let mut rep = Report::new();
        let mut buf = f0.clone();
        let total: u64 = 1u64 << wbits;
        let per = total / shards as u64;
        let mut n = 0u64;
        watch_enter(0x0401_0000 + sh as u64);
        for pat in (sh as u64 * per)..((sh as u64 + 1) * per) {
            if pat.count_ones() % 2 == 0 {
                continue;
            }
            for k in 0..wbits as usize {
                if (pat >> k) & 1 == 1 {
                    flip(&mut buf, k + (30 - wbits as usize));
                }
            }
            let mut c = C04 { rep: &mut rep };
            c.check(&buf, &|| json!({"flippable_pattern_L0":pat,"shifted_by":30-wbits}), "odd-weight");
            n += 1;
            buf.copy_from_slice(&f0);
        }
        watch_leave();
        rep.outcome_n("odd-weight-L0", n);
        rep
    });
    for p in parts {
        rep.merge(p);
    }
    {
        // all weight-5 patterns of the L=0 frame (subset of the above in thorough; explicit in quick)
        let mut buf = f0.clone();
        let nb = 30;
        let mut n = 0u64;
        for a in 0..nb {
            for b in a + 1..nb {
                for c_ in b + 1..nb {
                    for d in c_ + 1..nb {
                        for e in d + 1..nb {
                            for x in [a, b, c_, d, e] {
                                flip(&mut buf, x);
                            }
                            let mut c = C04 { rep: &mut rep };
                            c.check(&buf, &|| json!({"bits":[flip_pos(a),flip_pos(b),flip_pos(c_),flip_pos(d),flip_pos(e)]}), "weight-5");
                            buf.copy_from_slice(&f0);
                            n += 1;
                        }
                    }
                }
            }
        }
        rep.outcome_n("weight-5-L0", n);
    }
    // real frames from the repository's testdata: every single-bit flip and structured bursts
    let parts = par_shards(td.len(), |i| {
        let mut rep = Report::new();
        let f0 = &td[i].2;
        if classify(f0) != Class::Valid(f0.len()) {
            rep.notes.push(format!("testdata frame msg{}_{} is not a valid frame by the reference", td[i].0, td[i].1));
            return rep;
        }
        let l = f0.len() - 6;
        let nb = n_flippable(l);
        let mut buf = f0.clone();
        rep.states += 1;
        let mut c = C04 { rep: &mut rep };
        for a in 0..nb {
            flip(&mut buf, a);
            c.check(&buf, &|| json!({"testdata":format!("msg{}_{}",td[i].0,td[i].1),"bits":[flip_pos(a)]}), "single-bit");
            flip(&mut buf, a);
        }
        for b in [2usize, 3, 8, 16, 23, 24] {
            for start in 0..=nb.saturating_sub(b) {
                for full in [false, true] {
                    flip(&mut buf, start);
                    flip(&mut buf, start + b - 1);
                    if full {
                        for k in 1..b - 1 {
                            flip(&mut buf, start + k);
                        }
                    }
                    c.check(&buf, &|| json!({"testdata":format!("msg{}_{}",td[i].0,td[i].1),"burst_start":start,"burst_len":b,"full":full}), "burst");
                    buf.copy_from_slice(f0);
                }
            }
        }
        c.rep.outcome_n("testdata-frames", 1);
        rep
    });
    for p in parts {
        rep.merge(p);
    }
    rep.traces = rep.transitions;
    rep.distinct_nontrivial = rep.transitions;
    rep.sample(json!({"frame":hex(&make_frame(&fill(0,2))),"damage":{"bits":[8,40]},"expect":"NotValid, not delivered at offset 0"}));
    rep.sample(json!({"frame":hex(&f0),"damage":{"burst_start_flippable_index":3,"burst_len":24,"interior":"every 22-bit pattern"},"expect":"NotValid"}));
    let meta = Meta {
        rule: "error patterns over the flippable bits (6 reserved + payload + 24 CRC) of valid frames for every L in 0..=1023 x fills {ramp, FF} and every testdata frame: every single bit; all pairs for short L (and three long L in thorough), near pairs (distance<=64) + edge pairs otherwise; bursts 2..=24 at every start, every interior pattern for L<=3, structured interiors otherwise; all weight-3 (L<=2), all weight-5 (L=0) and all odd-weight patterns over the low/all flippable bits of the L=0 frame. states = base frames, transitions = damaged frames handed to MessageFrame::new and next_msg_frame".into(),
        exhaustive: false,
        bounds: json!({"pairs_all_L_le": if thorough {40} else {16}, "pairs_all_long_L": if thorough {json!([100,511,1023])} else {json!([])},
            "burst_full_interior": if thorough {"b<=24, L<=3"} else {"b<=16, L<=3"}, "odd_weight_bits_L0": wbits,
            "note":"each listed class is enumerated completely; the classes do not cover all pairs of all long frames (stated in DESIGN section 8)"}),
        assumptions: vec![],
    };
    (rep, meta)
}

// ---------------------------------------------------------------------------------------------
// C05 / C06 shared: streams

pub fn c05_alphabet() -> Vec<u8> {
    let c = crc24q(&[0xD3, 0, 0]);
    // the preamble, its lower neighbour (word-at-a-time preamble searches confuse the two), zero, the
    // CRC bytes of the empty frame, and a byte that is none of those
    vec![0xD3, 0x00, (c >> 16) as u8, (c >> 8) as u8, c as u8, 0x01, 0xD2]
}

pub fn tokens() -> Vec<(&'static str, Vec<u8>)> {
    let f1005 = unhex("D300133ED7D30202980EDEEF34B4BD62AC0941986F33360B98");
    let inner = make_frame(&[]);
    let mut pl = vec![0xD3, 0x00];
    pl.extend_from_slice(&inner);
    pl.extend_from_slice(&[0xD3, 0x11]);
    let outer = make_frame(&pl);
    let mut outer_bad = outer.clone();
    let n = outer_bad.len();
    outer_bad[n - 1] ^= 0x40;
    let mut bad1005 = f1005.clone();
    bad1005[7] ^= 0x10;
    vec![
        ("L0", make_frame(&[])),
        ("L1", make_frame(&[0x3E])),
        ("L2", make_frame(&[0x3E, 0xD0])),
        ("L1-reserved-bits", make_frame_r(&[0x3E], 0x15)),
        ("1005-reserved-bits", make_frame_r(&f1005[3..22], 0x20)),
        ("1005", f1005.clone()),
        ("outer", outer),
        ("outer-badcrc", outer_bad),
        ("1005-damaged", bad1005),
        ("1005[..1]", f1005[..1].to_vec()),
        ("1005[..2]", f1005[..2].to_vec()),
        ("1005[..3]", f1005[..3].to_vec()),
        ("1005[..12]", f1005[..12].to_vec()),
        ("1005[..24]", f1005[..24].to_vec()),
        ("00", vec![0x00]),
        ("FF", vec![0xFF]),
        ("D2", vec![0xD2]),
        ("D4D2", vec![0xD4, 0xD2]),
        ("D303FF", vec![0xD3, 0x03, 0xFF]),
        // a frame long enough to complete the bogus candidates "D3 | D3 00 .." (length 768+) and "D3 xx | D3 .." (length 211+)
        // that a stray preamble one or two bytes in front of it starts
        ("L800", make_frame(&fill(5, 800))),
    ]
}

/// all sequences over 0..k of length 0..=depth, in length-then-lexicographic order
fn seqs(k: usize, depth: usize) -> Vec<Vec<u8>> {
    let mut out = vec![vec![]];
    let mut cur = vec![vec![]];
    for _ in 0..depth {
        let mut next = Vec::with_capacity(cur.len() * k);
        for s in &cur {
            for a in 0..k {
                let mut t: Vec<u8> = s.clone();
                t.push(a as u8);
                next.push(t);
            }
        }
        out.extend(next.iter().cloned());
        cur = next;
    }
    out
}

fn c05_check(rep: &mut Report, buf: &[u8], desc: &dyn Fn() -> serde_json::Value) {
    rep.transitions += 1;
    rep.traces += 1;
    let r = catch(|| real_scan(buf));
    let (c, f) = match r {
        Ok(x) => x,
        Err(p) => {
            rep.violation("C05", panic_key(&p, "scan"), format!("next_msg_frame panicked: {}", p.message), buf.len() as u64, json!({"kind":"scan","bytes":hex(buf),"desc":desc()}));
            return;
        }
    };
    let (rc, rf) = ref_scan(buf);
    let mut bad: Option<String> = None;
    if c > buf.len() {
        bad = Some("consumed>len".into());
    } else {
        match (&f, rf) {
            (None, None) => {
                if c != rc {
                    bad = Some(format!("consumed {} expected {}", c, rc));
                }
            }
            (Some((s, e, bytes)), Some((rs, re))) => {
                if c != rc || *s != rs || *e != re {
                    bad = Some(format!("frame [{}..{}) consumed {} expected [{}..{}) consumed {}", s, e, c, rs, re, rc));
                } else if &buf[*s..*e] != &bytes[..] {
                    bad = Some("delivered bytes differ from buffer bytes ending at consumed".into());
                }
            }
            (Some(_), None) => bad = Some(format!("delivered a frame, reference finds none (consumed {} vs {})", c, rc)),
            (None, Some((rs, re))) => bad = Some(format!("no frame, reference finds [{}..{}) (consumed {} vs {})", rs, re, c, rc)),
        }
    }
    // derived check, independent of ref_scan: every consumed byte outside the delivered frame
    // is either != D3 or starts a complete invalid candidate
    if bad.is_none() {
        let skip_end = match &f {
            Some((s, _, _)) => *s,
            None => c,
        };
        for i in 0..skip_end {
            if buf[i] == 0xD3 && classify(&buf[i..]) != Class::Invalid {
                bad = Some(format!("skipped byte {} starts a candidate that is {:?}", i, classify(&buf[i..])));
                break;
            }
        }
    }
    match (&f, c) {
        (Some((0, _, _)), _) => rep.outcome("delivered@0"),
        (Some(_), _) => rep.outcome("delivered-after-skip"),
        (None, c) if c < buf.len() => rep.outcome("stalled-on-incomplete"),
        _ => rep.outcome("exhausted"),
    }
    // iterator: yields exactly the frames of repeated reference scans, in order; consumed equals their sum
    if bad.is_none() {
        let it_r = catch(|| {
            let mut it = MsgFrameIter::new(buf);
            let mut frames: Vec<Vec<u8>> = vec![];
            let mut guard = 0;
            for fr in &mut it {
                frames.push(fr.frame_data().to_vec());
                guard += 1;
                if guard > buf.len() + 2 {
                    return (frames, usize::MAX);
                }
            }
            (frames, it.consumed())
        });
        match it_r {
            Err(p) => bad = Some(format!("iterator panicked: {}", p.message)),
            Ok((frames, consumed)) => {
                // reference: repeated ref_scan until no frame is delivered
                let mut pos = 0;
                let mut exp: Vec<&[u8]> = vec![];
                loop {
                    if pos >= buf.len() {
                        break;
                    }
                    let (cc, ff) = ref_scan(&buf[pos..]);
                    match ff {
                        Some((s, e)) => {
                            exp.push(&buf[pos + s..pos + e]);
                            pos += cc;
                        }
                        None => {
                            pos += cc;
                            break;
                        }
                    }
                }
                if consumed == usize::MAX {
                    bad = Some("iterator does not terminate".into());
                } else if frames.len() != exp.len() || frames.iter().zip(exp.iter()).any(|(a, b)| &a[..] != *b) {
                    bad = Some(format!("iterator yields {} frames, reference {}", frames.len(), exp.len()));
                } else if consumed != pos {
                    bad = Some(format!("iterator consumed {} expected {}", consumed, pos));
                }
            }
        }
    }
    if let Some(b) = bad {
        let key: String = b.chars().filter(|c| !c.is_ascii_digit()).collect();
        rep.violation("C05", format!("scan:{}", key), b, buf.len() as u64, json!({"kind":"scan","bytes":hex(buf),"desc":desc()}));
    }
}

pub type Visit<'a> = &'a (dyn Fn(&mut Report, &[u8], &dyn Fn() -> serde_json::Value) + Sync);

/// The buffer sets of C05 (also used by C02's raw-buffer part): (a) alphabet strings, (b) token streams, (c) long buffers.
pub fn enumerate_buffers(tier: Tier, visit: Visit) -> Report {
    let maxlen = tier.pick(9usize, 10usize);
    let depth = tier.pick(4usize, 5usize);
    let alpha = c05_alphabet();
    // (a) strings: shard on the first 3 symbols
    let na = alpha.len();
    let parts = par_shards(na * na * na, |sh| {
        let mut rep = Report::new();
        let pre = [alpha[sh / (na * na)], alpha[(sh / na) % na], alpha[sh % na]];
        watch_enter(0x0500_0000 + sh as u64);
        if sh == 0 {
            // lengths 0..=2 once
            for s in seqs(na, 2) {
                let b: Vec<u8> = s.iter().map(|x| alpha[*x as usize]).collect();
                visit(&mut rep, &b, &|| json!("string over alphabet"));
                rep.states += 1;
            }
        }
        let mut buf = Vec::with_capacity(maxlen);
        // iterative enumeration of suffixes of length 0..=maxlen-3
        let mut idx: Vec<usize> = vec![];
        loop {
            buf.clear();
            buf.extend_from_slice(&pre);
            buf.extend(idx.iter().map(|i| alpha[*i]));
            visit(&mut rep, &buf, &|| json!("string over alphabet"));
            rep.states += 1;
            // next
            if idx.len() < maxlen - 3 {
                idx.push(0);
            } else {
                loop {
                    match idx.pop() {
                        None => break,
                        Some(x) if x + 1 < na => {
                            idx.push(x + 1);
                            break;
                        }
                        Some(_) => {}
                    }
                }
                if idx.is_empty() {
                    break;
                }
            }
        }
        watch_leave();
        rep
    });
    let mut rep = Report::new();
    for p in parts {
        rep.merge(p);
    }
    let n_strings = rep.states;
    // (b) token streams
    let toks = tokens();
    let all = seqs(toks.len(), depth);
    let nsh = 64;
    let parts = par_shards(nsh, |sh| {
        let mut rep = Report::new();
        watch_enter(0x0501_0000 + sh as u64);
        for (i, s) in all.iter().enumerate() {
            if i % nsh != sh {
                continue;
            }
            let mut b = vec![];
            for t in s {
                b.extend_from_slice(&toks[*t as usize].1);
            }
            visit(&mut rep, &b, &|| json!({"tokens": s.iter().map(|t| toks[*t as usize].0).collect::<Vec<_>>()}));
            rep.states += 1;
        }
        watch_leave();
        rep
    });
    for p in parts {
        rep.merge(p);
    }
    // (c) long buffers
    let big = make_frame(&fill(0, 1023));
    let mut two = big.clone();
    two.extend_from_slice(&make_frame(&fill(3, 1023)));
    let mut longs: Vec<(&str, Vec<u8>)> = vec![
        ("4KiB of D3", vec![0xD3; 4096]),
        ("4KiB of D3 03 FF", [0xD3, 0x03, 0xFF].iter().cycle().take(4096).cloned().collect()),
        ("two maximum frames back to back", two.clone()),
        ("garbage then max frame", {
            let mut v = vec![0x55; 700];
            v.extend_from_slice(&big);
            v
        }),
        ("D3-filled max frame with trailing D3s", {
            let mut v = make_frame(&fill(3, 1023));
            v.extend_from_slice(&[0xD3; 50]);
            v
        }),
    ];
    // buffers around and beyond 64 KiB (lengths that do not fit 16 bits)
    let f1005 = unhex("D300133ED7D30202980EDEEF34B4BD62AC0941986F33360B98");
    for total in [65535usize, 65536, 65537, 65536 + 24, 65536 + 25, 131072] {
        let mut v = f1005.clone();
        v.resize(total, 0x00);
        longs.push(("1005 frame followed by zeros up to a total around 64 KiB", v));
        let mut v = vec![0x55u8; total - 25];
        v.extend_from_slice(&f1005);
        longs.push(("garbage up to around 64 KiB, then a 1005 frame", v));
        let mut v = vec![0x55u8; total - 10];
        v.extend_from_slice(&f1005[..10]);
        longs.push(("garbage up to around 64 KiB, then an incomplete 1005 frame", v));
    }
    // every truncation of two maximum frames, in steps (thorough: every length)
    let step = tier.pick(37, 1);
    let mut t = 0;
    while t < two.len() {
        longs.push(("truncation of two maximum frames", two[..t].to_vec()));
        t += step;
    }
    for (name, b) in &longs {
        visit(&mut rep, b, &|| json!({"long": name, "len": b.len()}));
        rep.states += 1;
    }
    rep.extra.insert("string_maxlen".into(), json!(maxlen));
    rep.extra.insert("alphabet_strings".into(), json!(n_strings));
    rep.extra.insert("token_depth".into(), json!(depth));
    rep.extra.insert("long_buffers".into(), json!(longs.len()));
    rep
}

/// n complete CRC-failing candidates `D3 00 00 00 00 00`, then a valid 1005 frame
fn deep_scan_buffer(n: usize) -> Vec<u8> {
    let mut b = Vec::with_capacity(6 * n + 25);
    for _ in 0..n {
        b.extend_from_slice(&[0xD3, 0, 0, 0, 0, 0]);
    }
    b.extend_from_slice(&unhex("D300133ED7D30202980EDEEF34B4BD62AC0941986F33360B98"));
    b
}

/// child process of C05's deep scan (`mc C05-DEEP-SCAN <n>`): one scanner call and one iterator pass over
/// `deep_scan_buffer(n)` on a thread with the default 2 MiB stack; prints what it saw
pub fn deep_scan_child(n: usize) {
    let b = deep_scan_buffer(n);
    let h = std::thread::spawn(move || {
        let (c, f) = real_scan(&b);
        let mut it = MsgFrameIter::new(&b);
        let mut k = 0usize;
        for _ in &mut it {
            k += 1;
            if k > 10 {
                break;
            }
        }
        format!("consumed={} frame={:?} iterator_frames={} iterator_consumed={}", c, f.map(|(s, e, _)| (s, e)), k, it.consumed())
    });
    match h.join() {
        Ok(s) => println!("{}", s),
        Err(_) => {
            println!("panic");
            std::process::exit(3);
        }
    }
}

/// A scan that has to step over very many complete bad candidates must still return (the scanner may not
/// consume stack or time per rejected candidate without bound).  Run in a child process, because a stack
/// overflow aborts the process it happens in.
fn c05_deep_scan(ctx: &Ctx, rep: &mut Report) {
    let n = ctx.tier.pick(300_000usize, 3_000_000usize);
    let exe = match std::env::current_exe() {
        Ok(e) => e,
        Err(e) => {
            println!("MACHINERY-FAILURE: cannot locate the harness binary for the deep-scan child: {}", e);
            std::process::exit(2);
        }
    };
    let out = match std::process::Command::new(&exe).arg("C05-DEEP-SCAN").arg(n.to_string()).output() {
        Ok(o) => o,
        Err(e) => {
            println!("MACHINERY-FAILURE: cannot start the deep-scan child: {}", e);
            std::process::exit(2);
        }
    };
    rep.states += 1;
    rep.transitions += 2;
    rep.traces += 1;
    let want = format!("consumed={} frame={:?} iterator_frames=1 iterator_consumed={}", 6 * n + 25, Some((6 * n, 6 * n + 25)), 6 * n + 25);
    let got = String::from_utf8_lossy(&out.stdout).trim().to_string();
    let desc = json!({"kind":"deep_scan","candidates":n,"buffer":"n x D3 00 00 00 00 00, then a valid 1005 frame"});
    if !out.status.success() {
        rep.violation("C05", "deep-scan:abort".into(), format!("scanning {} complete bad candidates in front of a valid frame ends the process abnormally ({}; output {:?}) instead of delivering the frame", n, out.status, got.chars().take(80).collect::<String>()), n as u64, desc);
    } else if got != want {
        rep.violation("C05", "deep-scan:result".into(), format!("scanning {} complete bad candidates in front of a valid frame gives {:?}, expected {:?}", n, got, want), n as u64, desc);
    } else {
        rep.outcome("deep-scan-delivered");
    }
}

pub fn c05(ctx: &Ctx) -> (Report, Meta) {
    let mut rep = enumerate_buffers(ctx.tier, &|rep, buf, desc| c05_check(rep, buf, desc));
    c05_deep_scan(ctx, &mut rep);
    let maxlen = ctx.tier.pick(9usize, 10usize);
    let depth = ctx.tier.pick(4usize, 5usize);
    let alpha = c05_alphabet();
    let toks = tokens();
    rep.distinct_nontrivial = rep.outcomes.iter().filter(|(k, _)| k.starts_with("delivered")).map(|(_, v)| *v).sum();
    rep.sample(json!({"string": hex(&[0xD3,0x00,0x00,alpha[2],alpha[3],alpha[4]]), "expect":"delivered@0, consumed 6"}));
    rep.sample(json!({"tokens":["1005[..12]","L0"],"expect":"stalled on the incomplete candidate at 0"}));
    rep.sample(json!({"tokens":["outer-badcrc"],"expect":"inner L0 frame delivered after skip"}));
    let meta = Meta {
        rule: "every byte string over {D3,D2,00,c1,c2,c3,01} (c1..c3 = CRC of D3 00 00) up to maxlen; every sequence of <= depth tokens (valid frames, nested frame, damaged frames, truncation classes, stray bytes, header announcing 1023 bytes); long buffers beyond 1029 bytes; one buffer of 300 000 (thorough 3 000 000) complete bad candidates in front of a valid frame, scanned in a child process on a 2 MiB stack. Each buffer: next_msg_frame vs. reference scanner, derived dead-byte check, MsgFrameIter vs. repeated reference scans. distinct_nontrivial = buffers in which a frame was delivered".into(),
        exhaustive: true,
        bounds: json!({"string_maxlen": maxlen, "token_depth": depth, "tokens": toks.iter().map(|t| t.0).collect::<Vec<_>>()}),
        assumptions: vec![],
    };
    (rep, meta)
}

// ---------------------------------------------------------------------------------------------
// C06: all chunkings of a stream by explicit-state BFS

/// Caller protocol on `tail` (unconsumed bytes): call the scanner until it returns no frame,
/// dropping consumed bytes each time. Returns (consumed, frames).
fn drain(tail: &[u8], calls: &mut u64) -> (usize, Vec<Vec<u8>>) {
    let mut pos = 0;
    let mut frames = vec![];
    loop {
        *calls += 1;
        let (c, f) = next_msg_frame(&tail[pos..]);
        pos += c;
        match f {
            Some(f) => {
                // what a caller can observe of a delivered frame: its bytes and the message number it reports
                let mut o = f.frame_data().to_vec();
                match f.message_number() {
                    Some(n) => o.extend_from_slice(&[1, (n >> 8) as u8, n as u8]),
                    None => o.push(0),
                }
                frames.push(o)
            }
            None => break,
        }
        if frames.len() > tail.len() + 2 {
            break;
        }
    }
    (pos, frames)
}

pub struct ChunkResult {
    pub states: u64,
    pub transitions: u64,
    pub calls: u64,
    pub violation: Option<(String, Vec<usize>)>,
}

/// BFS over (consumed, fed, delivered count, delivered digest). `sizes(remaining)` gives the
/// chunk sizes explored in a state (all of 1..=remaining when None).
pub fn explore_chunkings(stream: &[u8], restrict: Option<&[usize]>) -> ChunkResult {
    let n = stream.len();
    let mut calls = 0u64;
    // one-shot reference run of the same protocol
    let (one_consumed, one_frames) = drain(stream, &mut calls);
    let mut prefix_digest = vec![0xcbf29ce484222325u64];
    for f in &one_frames {
        let d = fnv64_add(*prefix_digest.last().unwrap(), f);
        prefix_digest.push(fnv64_add(d, &[0xfe]));
    }
    #[derive(Clone)]
    struct St {
        consumed: usize,
        fed: usize,
        count: usize,
        digest: u64,
        parent: usize,
        chunk: usize,
    }
    let mut states: Vec<St> = vec![St { consumed: 0, fed: 0, count: 0, digest: prefix_digest[0], parent: usize::MAX, chunk: 0 }];
    let mut seen: HashSet<(usize, usize, usize, u64)> = HashSet::new();
    seen.insert((0, 0, 0, prefix_digest[0]));
    let mut transitions = 0u64;
    let mut head = 0;
    let path = |states: &Vec<St>, mut i: usize, last: usize| {
        let mut p = vec![last];
        while states[i].parent != usize::MAX {
            p.push(states[i].chunk);
            i = states[i].parent;
        }
        p.reverse();
        p
    };
    if n == 0 {
        return ChunkResult { states: 1, transitions: 0, calls, violation: None };
    }
    while head < states.len() {
        if states.len() > 400_000 {
            // cannot happen while deliveries are prefixes of the one-shot delivery (<= n(n+1)/2 states);
            // kept as a safety net so that a run always ends
            break;
        }
        let st = states[head].clone();
        let remaining = n - st.fed;
        let ks: Vec<usize> = match restrict {
            None => (1..=remaining).collect(),
            Some(r) => {
                let mut v: Vec<usize> = r.iter().cloned().filter(|k| *k >= 1 && *k <= remaining).collect();
                v.push(remaining);
                v.sort();
                v.dedup();
                v
            }
        };
        for k in ks {
            transitions += 1;
            let fed = st.fed + k;
            let (c, frames) = drain(&stream[st.consumed..fed], &mut calls);
            let consumed = st.consumed + c;
            let mut digest = st.digest;
            let mut count = st.count;
            for f in &frames {
                digest = fnv64_add(fnv64_add(digest, f), &[0xfe]);
                count += 1;
            }
            // invariant in every state
            let prefix_ok = count < prefix_digest.len() && prefix_digest[count] == digest;
            if !prefix_ok || consumed > one_consumed {
                return ChunkResult {
                    states: states.len() as u64,
                    transitions,
                    calls,
                    violation: Some((
                        format!("after chunks the delivered frames ({}) are not a prefix of the one-shot delivery ({}) or consumed {} > one-shot {}", count, one_frames.len(), consumed, one_consumed),
                        path(&states, head, k),
                    )),
                };
            }
            if fed == n && (count != one_frames.len() || consumed != one_consumed) {
                return ChunkResult {
                    states: states.len() as u64,
                    transitions,
                    calls,
                    violation: Some((
                        format!("after the last chunk: {} frames / {} consumed, one-shot: {} frames / {} consumed", count, consumed, one_frames.len(), one_consumed),
                        path(&states, head, k),
                    )),
                };
            }
            if fed < n && seen.insert((consumed, fed, count, digest)) {
                states.push(St { consumed, fed, count, digest, parent: head, chunk: k });
            }
        }
        head += 1;
    }
    ChunkResult { states: states.len() as u64 + 1, transitions, calls, violation: None }
}

fn c06_one(rep: &mut Report, stream: &[u8], restrict: Option<&[usize]>, desc: &dyn Fn() -> serde_json::Value) {
    let r = catch(|| explore_chunkings(stream, restrict));
    match r {
        Err(p) => rep.violation("C06", panic_key(&p, "chunk"), format!("panic while feeding chunks: {}", p.message), stream.len() as u64, json!({"kind":"chunking","stream":hex(stream),"desc":desc()})),
        Ok(r) => {
            rep.states += r.states;
            rep.transitions += r.transitions;
            rep.traces += 1;
            rep.add_extra_u64("scanner_calls", r.calls);
            rep.add_extra_u64("streams", 1);
            if restrict.is_none() && !stream.is_empty() {
                // number of chunkings this BFS stands for: 2^(n-1); accumulate log2 as max and a saturating sum
                let n = stream.len() as u32 - 1;
                let cur = rep.extra.get("chunkings_represented_saturating").and_then(|x| x.as_u64()).unwrap_or(0);
                let add = if n >= 63 { u64::MAX } else { 1u64 << n };
                rep.extra.insert("chunkings_represented_saturating".into(), json!(cur.saturating_add(add).min(i64::MAX as u64)));
            }
            if let Some((what, cuts)) = r.violation {
                let key: String = what.chars().filter(|c| !c.is_ascii_digit()).collect();
                rep.violation("C06", format!("chunk:{}", key), what, (stream.len() * 100 + cuts.len()) as u64, json!({"kind":"chunking","stream":hex(stream),"chunks":cuts,"desc":desc()}));
                rep.outcome("diverged");
            } else {
                rep.outcome("agrees-with-one-shot");
            }
        }
    }
}

pub fn c06(ctx: &Ctx) -> (Report, Meta) {
    let depth = ctx.tier.pick(4usize, 5usize);
    let strlen = ctx.tier.pick(7usize, 8usize);
    // the long token is explored with restricted chunk sizes below (all chunkings of 800+ bytes are out of reach)
    let toks: Vec<(&'static str, Vec<u8>)> = tokens().into_iter().filter(|t| t.0 != "L800").collect();
    let all = seqs(toks.len(), depth);
    let nsh = 256;
    let parts = par_shards(nsh, |sh| {
        let mut rep = Report::new();
        watch_enter(0x0600_0000 + sh as u64);
        for (i, s) in all.iter().enumerate() {
            if i % nsh != sh {
                continue;
            }
            let mut b = vec![];
            for t in s {
                b.extend_from_slice(&toks[*t as usize].1);
            }
            c06_one(&mut rep, &b, None, &|| json!({"tokens": s.iter().map(|t| toks[*t as usize].0).collect::<Vec<_>>()}));
        }
        watch_leave();
        rep
    });
    let mut rep = Report::new();
    for p in parts {
        rep.merge(p);
    }
    // strings of set (a)
    let alpha = c05_alphabet();
    let strs = seqs(alpha.len(), strlen);
    let parts = par_shards(nsh, |sh| {
        let mut rep = Report::new();
        watch_enter(0x0601_0000 + sh as u64);
        for (i, s) in strs.iter().enumerate() {
            if i % nsh != sh {
                continue;
            }
            let b: Vec<u8> = s.iter().map(|x| alpha[*x as usize]).collect();
            c06_one(&mut rep, &b, None, &|| json!("string over alphabet"));
        }
        watch_leave();
        rep
    });
    for p in parts {
        rep.merge(p);
    }
    // testdata frames concatenated pairwise (first 12 / all), all chunkings for short ones
    let td = testdata_frames();
    let lim = ctx.tier.pick(24, td.len());
    let parts = par_shards(lim.min(td.len()), |i| {
        let mut rep = Report::new();
        let a = &td[i].2;
        let b = &td[(i * 7 + 3) % td.len()].2;
        let mut s = a.clone();
        s.push(0xD3);
        s.extend_from_slice(b);
        watch_enter(0x0602_0000 + i as u64);
        if s.len() <= 400 {
            c06_one(&mut rep, &s, None, &|| json!({"testdata":[format!("msg{}_{}",td[i].0,td[i].1),"D3",format!("msg{}_{}",td[(i*7+3)%td.len()].0,td[(i*7+3)%td.len()].1)]}));
        } else {
            let l = a.len() - 6;
            let r = [1, 2, 3, 5, 6, 7, l + 5, l + 6, l + 7];
            c06_one(&mut rep, &s, Some(&r), &|| json!({"testdata_restricted_chunks":[format!("msg{}_{}",td[i].0,td[i].1)]}));
        }
        watch_leave();
        rep
    });
    for p in parts {
        rep.merge(p);
    }
    // streams containing maximum-length frames: restricted chunk sizes (not called exhaustive)
    let big = make_frame(&fill(0, 1023));
    let l = 1023;
    let restrict = [1usize, 2, 3, 5, 6, 7, l + 5, l + 6, l + 7];
    let mut s1 = vec![0x00, 0xD3];
    s1.extend_from_slice(&big);
    s1.extend_from_slice(&make_frame(&[]));
    c06_one(&mut rep, &s1, Some(&restrict), &|| json!("00 D3 maxframe L0, restricted chunk sizes"));
    let mut s2 = big.clone();
    s2.extend_from_slice(&big[..700]);
    c06_one(&mut rep, &s2, Some(&restrict), &|| json!("maxframe + truncated maxframe, restricted chunk sizes"));
    // a stray preamble one or two bytes in front of a long frame starts a bogus candidate (declared length 768+ /
    // 211+) that the frame itself completes; cuts around the ends of the bogus candidates and of the frame
    {
        let long = make_frame(&fill(5, 800));
        let r = [1usize, 2, 3, 4, 5, 6, 7, 8, 216, 217, 218, 219, 220, 773, 774, 775, 776, 777, 805, 806, 807, 808, 809];
        for pre in [vec![0xD3u8], vec![0xD3, 0x00], vec![0xD3, 0xD3], vec![0x00, 0xD3, 0x01], vec![0xD3, 0x00, 0xD3]] {
            let mut s = pre.clone();
            s.extend_from_slice(&long);
            s.extend_from_slice(&make_frame(&[0x3E]));
            c06_one(&mut rep, &s, Some(&r), &|| json!({"stray bytes": hex(&pre), "then": "800-byte-payload frame, L1 frame; restricted chunk sizes"}));
        }
    }
    // a stream longer than 64 KiB (3000 copies of the 1005 frame = 75 000 bytes), chunk sizes around 2^16
    {
        let f1005 = unhex("D300133ED7D30202980EDEEF34B4BD62AC0941986F33360B98");
        let mut s3: Vec<u8> = Vec::with_capacity(75_000);
        for _ in 0..3000 {
            s3.extend_from_slice(&f1005);
        }
        let r = [1000usize, 9_000, 65_535, 65_536, 65_537, 70_000];
        c06_one(&mut rep, &s3, Some(&r), &|| json!("3000 x 1005 frame (75 000 bytes), chunk sizes {1000, 9000, 65535, 65536, 65537, 70000, rest}"));
    }
    rep.distinct_nontrivial = rep.extra.get("streams").and_then(|x| x.as_u64()).unwrap_or(0);
    rep.sample(json!({"tokens":["1005","L0"],"chunkings":"all 2^30","state":"(consumed, fed, delivered count, delivered digest)"}));
    rep.sample(json!({"stream": hex(&s1[..12]), "len": s1.len(), "chunk_sizes": restrict}));
    let meta = Meta {
        rule: "for each stream (token sequences up to depth, alphabet strings up to strlen, pairs of testdata frames) explicit-state BFS over all ways of feeding it in chunks; state = (consumed_total, fed, delivered count, digest of delivered frames); action feed(k) for every k; each transition runs the real scanner under the caller protocol; invariant: delivered is a prefix of the one-shot delivery, terminal states equal the one-shot result. traces_validated = streams whose whole chunking graph was explored".into(),
        exhaustive: true,
        bounds: json!({"token_depth": depth, "string_len": strlen, "maxframe_streams":"chunk sizes restricted to {1,2,3,5,6,7,L+5,L+6,L+7,rest} (those two streams are not exhaustive)"}),
        assumptions: vec!["the caller's whole memory is the unconsumed tail, so (consumed, fed) determines the buffer; the digest keeps paths with different deliveries apart".into()],
    };
    (rep, meta)
}

// ---------------------------------------------------------------------------------------------
// C13

fn attrs(s: &[u8]) -> Result<(usize, usize, Vec<u8>, Vec<u8>, u32, Option<u16>, String), String> {
    match MessageFrame::new(s) {
        Ok(f) => Ok((f.frame_len(), f.data_len(), f.data().to_vec(), f.frame_data().to_vec(), f.crc(), f.message_number(), format!("{:?}", f.get_message()))),
        Err(e) => Err(format!("{:?}", e)),
    }
}

pub fn c13(ctx: &Ctx) -> (Report, Meta) {
    let nums: Vec<u16> = feature_numbers().into_iter().collect();
    let second = make_frame(&[0x3E, 0xD0, 0x01]);
    let thorough = ctx.tier.thorough();
    let parts = par_shards(1024, |l| {
        let mut rep = Report::new();
        let mut payloads: Vec<Vec<u8>> = vec![];
        if l == 0 {
            payloads.push(vec![]);
        } else if l == 1 {
            for b in 0..=255u8 {
                payloads.push(vec![b]);
            }
        } else {
            payloads.push(fill(0, l));
            payloads.push(fill(2, l)); // message number 0
            payloads.push(fill(1, l)); // message number 4095
            // a real supported number in the first 12 bits
            let n = nums[l % nums.len()];
            let mut p = fill(2, l);
            p[0] = (n >> 4) as u8;
            p[1] = ((n & 0xf) << 4) as u8;
            payloads.push(p);
            let mut p = fill(1, l);
            p[0] = (n >> 4) as u8;
            p[1] = ((n & 0xf) << 4) as u8 | 0x0f;
            payloads.push(p);
        }
        let mut suffixes: Vec<Vec<u8>> = vec![];
        if thorough {
            // every suffix length 1..=48 in three fills, for every payload length
            for n in 1..=48usize {
                suffixes.push(vec![0x00; n]);
                suffixes.push(vec![0xFF; n]);
                suffixes.push((0..n).map(|i| (i * 91 + 0xD3) as u8).collect());
            }
        }
        if l <= 3 || thorough {
            for b in 0..=255u8 {
                suffixes.push(vec![b]);
            }
        } else {
            for b in [0x00u8, 0xD3, 0xFF] {
                suffixes.push(vec![b]);
            }
        }
        for n in [2usize, 3, 4, 8, 40] {
            suffixes.push(vec![0x00; n]);
            suffixes.push(vec![0xFF; n]);
            suffixes.push((0..n).map(|i| (i * 37 + 5) as u8).collect());
        }
        suffixes.push(second.clone());
        suffixes.push(second[..5].to_vec());
        if l <= 2 || l == 19 || l == 255 || l == 1023 {
            // totals around 64 KiB and 128 KiB (lengths that do not fit 16 bits)
            for total in [65535usize, 65536, 65537, 65536 + l + 5, 65536 + l + 6, 131072, 131072 + l + 5] {
                if total > l + 6 {
                    suffixes.push(vec![0u8; total - (l + 6)]);
                }
            }
        }
        watch_enter(0x1300_0000 + l as u64);
        // (payload, reserved header bits): reserved bits are set for a few lengths, with suffixes whose
        // length is a multiple of 1024 around the value the reserved bits would add to the length field
        let mut frames: Vec<(Vec<u8>, u8)> = payloads.iter().map(|p| (p.clone(), 0u8)).collect();
        if l <= 2 || l == 19 || l == 1000 {
            for r in [1u8, 2, 21, 63] {
                frames.push((payloads[0].clone(), r));
            }
            for r in [1usize, 2, 3] {
                for d in [-1i64, 0, 1, 100] {
                    let n = (1024 * r) as i64 + d;
                    suffixes.push(vec![0x11u8; n as usize]);
                }
            }
        }
        for (p, rbits) in &frames {
            let f = make_frame_r(p, *rbits);
            rep.states += 1;
            let base = catch(|| attrs(&f));
            let base = match base {
                Ok(Ok(b)) => b,
                Ok(Err(e)) => {
                    // rejecting a valid frame outright is C03's business; C13's is whether the verdict
                    // depends on what follows the frame
                    for sfx in &suffixes {
                        let mut g = f.clone();
                        g.extend_from_slice(sfx);
                        rep.transitions += 1;
                        if let Ok(Ok(_)) = catch(|| attrs(&g)) {
                            rep.violation("C13", format!("acceptance-depends-on-suffix:{}", e), format!("frame with L={} (reserved bits {:#x}) is rejected ({}) on its own but accepted when {} byte(s) follow it", l, rbits, e, sfx.len()), (l * 100 + sfx.len()) as u64, json!({"kind":"suffix","frame":hex(&f),"suffix":hex(sfx)}));
                            break;
                        }
                    }
                    rep.outcome("valid-frame-rejected-alone(judged by C03)");
                    continue;
                }
                Err(pn) => {
                    rep.violation("C13", panic_key(&pn, "attrs"), format!("panic: {}", pn.message), l as u64, json!({"kind":"suffix","frame":hex(&f),"suffix":""}));
                    continue;
                }
            };
            // message number rule
            let expect_num = if l >= 2 { Some(((p[0] as u16) << 4) | (p[1] as u16 >> 4)) } else { None };
            if base.5 != expect_num {
                rep.violation("C13", format!("number-rule:L{}", l.min(2)), format!("message_number() = {:?}, expected {:?} (L={})", base.5, expect_num, l), l as u64, json!({"kind":"suffix","frame":hex(&f),"suffix":""}));
            }
            rep.outcome(if l >= 2 { "number-present" } else { "number-absent" });
            for sfx in &suffixes {
                let mut g = f.clone();
                g.extend_from_slice(sfx);
                rep.transitions += 1;
                rep.traces += 1;
                match catch(|| attrs(&g)) {
                    Ok(Ok(a)) => {
                        if a != base {
                            let which = if a.0 != base.0 { "frame_len" } else if a.1 != base.1 { "data_len" } else if a.2 != base.2 { "data" } else if a.3 != base.3 { "frame_data" } else if a.4 != base.4 { "crc" } else if a.5 != base.5 { "message_number" } else { "get_message" };
                            rep.violation("C13", format!("suffix-changes:{}:L{}", which, l.min(2)),
                                format!("appending {} byte(s) changes {}: L={} without suffix number={:?} msg={}, with suffix number={:?} msg={}", sfx.len(), which, l, base.5, &base.6.chars().take(60).collect::<String>(), a.5, &a.6.chars().take(60).collect::<String>()),
                                (l * 100 + sfx.len()) as u64,
                                json!({"kind":"suffix","frame":hex(&f),"suffix":hex(sfx)}));
                        }
                    }
                    Ok(Err(e)) => rep.violation("C13", format!("suffix-rejects:{}", e), format!("frame with suffix rejected: {}", e), l as u64, json!({"kind":"suffix","frame":hex(&f),"suffix":hex(sfx)})),
                    Err(pn) => rep.violation("C13", panic_key(&pn, "attrs"), format!("panic: {}", pn.message), l as u64, json!({"kind":"suffix","frame":hex(&f),"suffix":hex(sfx)})),
                }
            }
        }
        watch_leave();
        rep
    });
    let mut rep = Report::new();
    for p in parts {
        rep.merge(p);
    }
    // testdata frames (typed messages) with suffixes
    for (n, i, f) in testdata_frames() {
        let base = catch(|| attrs(&f));
        for sfx in [vec![0xD3u8], vec![0xFF; 40], second.clone()] {
            let mut g = f.clone();
            g.extend_from_slice(&sfx);
            rep.transitions += 1;
            rep.traces += 1;
            let a = catch(|| attrs(&g));
            if a != base {
                rep.violation("C13", "suffix-changes:testdata".into(), format!("testdata msg{}_{}: attributes change with suffix", n, i), f.len() as u64, json!({"kind":"suffix","frame":hex(&f),"suffix":hex(&sfx)}));
            }
        }
        rep.states += 1;
        rep.outcome("typed-testdata");
    }
    rep.distinct_nontrivial = rep.states;
    rep.sample(json!({"frame": hex(&make_frame(&[])), "suffixes": "every single byte 00..FF; 2,3,4,8,40 bytes of 00/FF/ramp; a complete second frame; 5 bytes of one"}));
    rep.sample(json!({"frame_L": 1, "payload": "every byte value", "expect": "message_number None, get_message Empty, with and without suffix"}));
    let _ = ctx;
    let meta = Meta {
        rule: "every payload length L in 0..=1023 (L=1: all 256 payload bytes; L>=2: ramp, zero and ones payloads carrying a supported number) x suffixes {every single byte (L<=3) or {00,D3,FF}; 2,3,4,8,40 bytes of 00/FF/ramp; a complete second frame; first 5 bytes of one; suffixes reaching totals around 64 KiB / 128 KiB and multiples of 1024 for some L; thorough: every single byte and every suffix length 1..=48 in three fills for every L}; all attributes incl. decoded message compared with the suffix-free frame; message_number rule checked against the first 12 payload bits".into(),
        exhaustive: true,
        bounds: json!({"L":"0..=1023"}),
        assumptions: vec![],
    };
    (rep, meta)
}

// ---------------------------------------------------------------------------------------------
// C14

pub fn c14(ctx: &Ctx) -> (Report, Meta) {
    let feats = feature_numbers();
    let td = testdata_frames();
    let feats_ref = &feats;
    let td_ref = &td;
    let parts = par_shards(4096, |n| {
        let mut rep = Report::new();
        let n = n as u16;
        let mut shapes: Vec<Vec<u8>> = vec![];
        let head = |rest: u8| vec![(n >> 4) as u8, ((n & 0xf) << 4) as u8 | (rest & 0xf)];
        for (len, fillb) in [(2usize, 0u8), (2, 0xff), (3, 0), (3, 0xff), (8, 0), (8, 0xff), (8, 0xA5), (1023, 0), (1023, 0xff), (1023, 0x5A), (200, 0x11)] {
            let mut p = head(fillb);
            p.resize(len, fillb);
            shapes.push(p);
        }
        for (tn, _, f) in td_ref.iter() {
            if *tn == n {
                shapes.push(f[3..f.len() - 3].to_vec());
            }
        }
        let supported = feats_ref.contains(&n);
        let mut saw_typed = false;
        watch_enter(0x1400_0000 + n as u64);
        for p in &shapes {
            let f = make_frame(p);
            rep.transitions += 1;
            rep.traces += 1;
            let r = catch(|| {
                let (_, fr) = next_msg_frame(&f);
                let fr = fr.expect("valid frame not delivered");
                let m = fr.get_message();
                let num = m.number();
                let dbg = format!("{:?}", m);
                // reverse direction for typed messages
                let mut built_num: Option<Option<u16>> = None;
                if num.is_some() {
                    let mut b = MessageBuilder::new();
                    if let Ok(bytes) = b.build_message(&m) {
                        built_num = Some(if bytes.len() >= 8 { Some(((bytes[3] as u16) << 4) | (bytes[4] as u16 >> 4)) } else { None });
                    }
                }
                (outcome_class(&m), num, dbg, built_num, match &m { Message::MsgNotSupported(t) => Some(t.message_number), _ => None })
            });
            match r {
                Err(pn) => {
                    // neither the variant of this number nor Corrupt (C02 reports the panic as such)
                    rep.violation("C14", format!("classify:{}:panic:{}", n, pn.location), format!("n={} ({}): decoding panics instead of giving {}: {}", n, if supported { "a message feature" } else { "not a feature" }, if supported { "its variant or Corrupt" } else { "MsgNotSupported" }, pn.message), p.len() as u64, json!({"kind":"frame_decode","frame":hex(&f)}));
                }
                Ok((class, num, dbg, built_num, uns)) => {
                    let mut bad: Option<String> = None;
                    if !supported {
                        if class != "MsgNotSupported" || uns != Some(n) {
                            bad = Some(format!("n={} not a feature but outcome {} {:?}", n, class, uns));
                        }
                        rep.outcome("unsupported");
                    } else {
                        match class {
                            "Corrupt" => rep.outcome("supported-corrupt"),
                            "typed" => {
                                saw_typed = true;
                                rep.outcome("supported-typed");
                                if num != Some(n) {
                                    bad = Some(format!("n={} decoded to a variant reporting number {:?}", n, num));
                                } else if !dbg.starts_with(&format!("Msg{}(", n)) {
                                    bad = Some(format!("n={} decoded to variant {}", n, dbg.chars().take(12).collect::<String>()));
                                } else if let Some(bn) = built_num {
                                    if bn != Some(n) {
                                        bad = Some(format!("n={} typed message re-encodes under number {:?}", n, bn));
                                    }
                                }
                            }
                            other => bad = Some(format!("n={} is a feature but outcome {}", n, other)),
                        }
                    }
                    if let Some(b) = bad {
                        rep.violation("C14", format!("classify:{}:{}", n, class), b, p.len() as u64, json!({"kind":"frame_decode","frame":hex(&f)}));
                    }
                }
            }
        }
        watch_leave();
        rep.states += 1;
        if supported && saw_typed {
            rep.distinct_nontrivial += 1;
        }
        rep
    });
    let mut rep = Report::new();
    for p in parts {
        rep.merge(p);
    }
    // payloads of 0 and 1 byte: Empty
    let mut short: Vec<Vec<u8>> = vec![vec![]];
    for b in 0..=255u8 {
        short.push(vec![b]);
    }
    for p in &short {
        let f = make_frame(p);
        rep.transitions += 1;
        rep.traces += 1;
        match catch(|| MessageFrame::new(&f).map(|fr| outcome_class(&fr.get_message())).map_err(|e| format!("{:?}", e))) {
            Ok(Ok("Empty")) => rep.outcome("empty"),
            other => rep.violation("C14", format!("short-payload:L{}", p.len()), format!("payload of {} byte(s) decodes to {:?}, expected Empty", p.len(), other), p.len() as u64, json!({"kind":"frame_decode","frame":hex(&f)})),
        }
        // the same frame embedded in a longer buffer (the scanner hands over a longer slice)
        let mut g = f.clone();
        g.extend_from_slice(&[0x3E, 0xD0, 0x00, 0x00]);
        rep.transitions += 1;
        match catch(|| { let (_, fr) = next_msg_frame(&g); fr.map(|fr| outcome_class(&fr.get_message())) }) {
            Ok(Some("Empty")) => rep.outcome("empty-in-stream"),
            other => rep.violation("C14", format!("short-payload-in-stream:L{}", p.len()), format!("payload of {} byte(s) followed by other data decodes to {:?}, expected Empty", p.len(), other), p.len() as u64, json!({"kind":"scan_decode","bytes":hex(&g)})),
        }
    }
    // set equality: observed supported set (anything but MsgNotSupported on the zero 1023-byte payload) == features
    let mut observed = BTreeSet::new();
    for n in 0..4096u16 {
        let mut p = vec![(n >> 4) as u8, ((n & 0xf) << 4) as u8];
        p.resize(1023, 0);
        let f = make_frame(&p);
        if let Ok(Ok(c)) = catch(|| MessageFrame::new(&f).map(|fr| outcome_class(&fr.get_message())).map_err(|_| ())) {
            if c != "MsgNotSupported" {
                observed.insert(n);
            }
        } else {
            observed.insert(n);
        }
    }
    if observed != feats {
        let only_obs: Vec<_> = observed.difference(&feats).collect();
        let only_feat: Vec<_> = feats.difference(&observed).collect();
        rep.violation("C14", format!("set:{:?}:{:?}", only_obs, only_feat), format!("supported numbers observed-only {:?}, features-only {:?}", only_obs, only_feat), 0, json!({"kind":"supported_set"}));
    }
    // the decode exploration (all supported numbers x bases x 0/1/2 field deviations) with the
    // classification oracle: hostile but structurally valid payloads must still give the typed variant of
    // their own number or Corrupt
    let dec = crate::decode::run_decode_engine(ctx, "C14");
    rep.merge(dec);
    // hostile list frames (every announced satellite count, maximal bias counts): the variant of their number or Corrupt
    for n in [1059u16, 1065] {
        if !feats.contains(&n) {
            continue;
        }
        for f in crate::bias::hostile_frames(n) {
            rep.transitions += 1;
            rep.traces += 1;
            match catch(|| MessageFrame::new(&f).map(|fr| { let m = fr.get_message(); (outcome_class(&m), m.number()) })) {
                Ok(Ok(("Corrupt", _))) => rep.outcome("hostile-corrupt"),
                Ok(Ok(("typed", Some(x)))) if x == n => rep.outcome("hostile-typed"),
                Ok(other) => rep.violation("C14", format!("classify:{}:hostile", n), format!("n={}: frame with a maximal bias list decodes to {:?}", n, other.map(|x| x.0).unwrap_or("frame not accepted")), f.len() as u64, json!({"kind":"frame_decode","frame":hex(&f)})),
                Err(pn) => rep.violation("C14", format!("classify:{}:panic:{}", n, pn.location), format!("n={}: decoding a frame with a maximal bias list panics instead of giving its variant or Corrupt: {}", n, pn.message), f.len() as u64, json!({"kind":"frame_decode","frame":hex(&f)})),
            }
        }
    }
    rep.extra.insert("supported_numbers".into(), json!(feats.len()));
    rep.sample(json!({"n": 1005, "shapes": "2,3,8,200,1023-byte payloads of 00/FF/other + testdata payloads", "expect": "Msg1005 or Corrupt"}));
    rep.sample(json!({"n": 1018, "expect": "MsgNotSupported{1018}"}));
    let _ = ctx;
    let meta = Meta {
        rule: "all 4096 message numbers x payload shapes {2,3,8,200,1023 bytes of 00/FF/patterns, testdata payloads}; payloads of 0 and 1 byte (all values) alone and embedded in a stream; supported set observed from decoder behaviour compared with the msgNNNN features parsed from Cargo.toml; typed results re-encoded and the number on the wire compared; plus the deviation-bounded decode exploration of C02 (every supported number x bases x field deviations) with the classification oracle. states = message numbers + distinct decode shapes; distinct_nontrivial = supported numbers for which a typed message was obtained".into(),
        exhaustive: true,
        bounds: json!({"n":"0..=4095"}),
        assumptions: vec![],
    };
    (rep, meta)
}

//! C16: SSR code-bias lists (1059, 1065) and GLONASS code-phase bias (1230): every entry kept
//! or an error; small-scope enumeration plus boundary scopes and hostile frames.

use crate::common::*;
use crate::field::Field;
use mc_core::*;
use rtcm_rs::msg::*;
use rtcm_rs::prelude::*;
use rtcm_rs::util::DataVec;
use serde_json::json;

/// recognised SSR code-bias signal identifiers (RTCM 10403.3 tables 3.5-87 / 3.5-88 as far as the
/// library supports them): (wire id, band, attribute)
const GPS_BIAS_SIGS: &[(u8, u8, char)] = &[(0, 1, 'C'), (1, 1, 'P'), (2, 1, 'W'), (5, 2, 'C'), (6, 2, 'D'), (7, 2, 'S'), (8, 2, 'L'), (9, 2, 'X'), (10, 2, 'P'), (11, 2, 'W'), (14, 5, 'I'), (15, 5, 'Q')];
const GLO_BIAS_SIGS: &[(u8, u8, char)] = &[(0, 1, 'C'), (1, 1, 'P'), (2, 2, 'C'), (3, 2, 'P')];

type Entry = (u8, u8, char, u32); // satellite, band, attribute, bias bit pattern (f32)

fn perms_small(n: usize) -> Vec<Vec<usize>> {
    let id: Vec<usize> = (0..n).collect();
    if n <= 1 {
        return vec![id];
    }
    if n <= 5 {
        let mut out = vec![];
        let mut a = id.clone();
        let mut c = vec![0usize; n];
        out.push(a.clone());
        let mut i = 0;
        while i < n {
            if c[i] < i {
                if i % 2 == 0 {
                    a.swap(0, i);
                } else {
                    a.swap(c[i], i);
                }
                out.push(a.clone());
                c[i] += 1;
                i = 0;
            } else {
                c[i] = 0;
                i += 1;
            }
        }
        return out;
    }
    let mut out = vec![id.clone()];
    let mut r = id.clone();
    r.reverse();
    out.push(r);
    out.push((0..n).step_by(2).chain((1..n).step_by(2)).collect());
    for k in [1, n / 2, n - 1] {
        let mut x = id.clone();
        x.rotate_left(k);
        out.push(x);
    }
    out
}

macro_rules! bias_msg {
    ($build:ident, $decode:ident, $variant:ident, $t:ident, $entry:ident, $sig:ident, $cap:literal) => {
        fn $build(entries: &[Entry]) -> Option<Message> {
            if entries.len() > $cap {
                return None;
            }
            let mut list = DataVec::new();
            for e in entries {
                list.push($entry { satellite_id: e.0, signal_id: $sig::new(e.1, e.2), bias_m: f32::from_bits(e.3) });
            }
            Some(Message::$variant($t { biases: list, ..Default::default() }))
        }
        fn $decode(m: &Message) -> Option<Vec<Entry>> {
            match m {
                Message::$variant(t) => Some(t.biases.iter().map(|b| (b.satellite_id, b.signal_id.band(), b.signal_id.attribute(), b.bias_m.to_bits())).collect()),
                _ => None,
            }
        }
    };
}
bias_msg!(build1059, dec1059, Msg1059, Msg1059T, Msg1059CodeBias, GpsSigId, 390);
bias_msg!(build1065, dec1065, Msg1065, Msg1065T, Msg1065CodeBias, GloSigId, 390);

fn build1230(entries: &[Entry]) -> Option<Message> {
    if entries.len() > 4 {
        return None;
    }
    let mut list = DataVec::new();
    for e in entries {
        list.push(Msg1230CodePhaseBias { signal_id: GloSigId::new(e.1, e.2), bias_m: f32::from_bits(e.3) });
    }
    Some(Message::Msg1230(Msg1230T { glo_code_phase_biases: list, ..Default::default() }))
}
fn dec1230(m: &Message) -> Option<Vec<Entry>> {
    match m {
        Message::Msg1230(t) => Some(t.glo_code_phase_biases.iter().map(|b| (0, b.signal_id.band(), b.signal_id.attribute(), b.bias_m.to_bits())).collect()),
        _ => None,
    }
}

struct Kind {
    number: u16,
    build: fn(&[Entry]) -> Option<Message>,
    decode: fn(&Message) -> Option<Vec<Entry>>,
    sigs: &'static [(u8, u8, char)],
    max_sat: u8,
    grid: fn(i64) -> u32,
}

fn grid1059(k: i64) -> u32 {
    crate::field::bias1059::decode_pattern((k as u64) & 0x3fff).unwrap().unwrap().to_bits()
}
fn grid1065(k: i64) -> u32 {
    crate::field::bias1065::decode_pattern((k as u64) & 0x3fff).unwrap().unwrap().to_bits()
}
fn grid1230(k: i64) -> u32 {
    crate::field::bias1230::decode_pattern((k as u64) & 0xffff).unwrap().unwrap().to_bits()
}

/// one list: build; Err is fine; Ok must decode to the same multiset grouped by ascending satellite
fn check_list(rep: &mut Report, k: &Kind, entries: &[Entry], tag: &str) {
    rep.states += 1;
    rep.transitions += 1;
    let desc = || json!({"kind":"bias_list","number":k.number,"scope":tag,"entries":entries.iter().map(|e| json!([e.0,e.1,e.2.to_string(),f32::from_bits(e.3)])).collect::<Vec<_>>()});
    let size = entries.len() as u64;
    let Some(m) = (k.build)(entries) else { return };
    let r = catch(|| {
        let mut b = MessageBuilder::new();
        match b.build_message(&m) {
            Err(e) => Err(format!("{:?}", e)),
            Ok(bytes) => {
                let bytes = bytes.to_vec();
                let m2 = MessageFrame::new(&bytes).map(|f| f.get_message()).unwrap_or(Message::Corrupt);
                Ok(m2)
            }
        }
    });
    match r {
        Err(pn) => rep.violation("C16", format!("{}:panic:{}", k.number, pn.location), format!("msg {}: encoding a list of {} entries panicked: {}", k.number, entries.len(), pn.message), size, desc()),
        Ok(Err(_e)) => rep.outcome("refused-with-error"),
        Ok(Ok(m2)) => {
            rep.transitions += 1;
            rep.traces += 1;
            match (k.decode)(&m2) {
                None => rep.violation("C16", format!("{}:decodes-to-{}", k.number, outcome_class(&m2)), format!("msg {}: list of {} entries builds but decodes to {}", k.number, entries.len(), outcome_class(&m2)), size, desc()),
                Some(got) => {
                    let mut a: Vec<Entry> = entries.to_vec();
                    let mut b = got.clone();
                    a.sort();
                    b.sort();
                    let grouped = got.windows(2).all(|w| w[0].0 <= w[1].0);
                    let keys = |v: &[Entry]| v.iter().map(|e| (e.0, e.1, e.2)).collect::<std::collections::BTreeSet<_>>();
                    let has_dup = keys(entries).len() != entries.len();
                    if has_dup {
                        // outside the statement's 'distinct signals' precondition but inside its quantifier
                        // ("more than 31 entries per satellite"): only what every reading demands -- nothing
                        // invented, no (satellite, signal) key lost, not more entries than given
                        let invented = got.iter().any(|e| !a.contains(e));
                        if invented || keys(&got) != keys(entries) || got.len() > entries.len() {
                            rep.violation("C16", format!("{}:duplicate-keys-list-garbled", k.number), format!("msg {}: {} entries ({} distinct satellite/signal keys) built without error, decoded {} entries with {} distinct keys{}", k.number, entries.len(), keys(entries).len(), got.len(), keys(&got).len(), if invented { ", some never given" } else { "" }), size, desc());
                        } else {
                            rep.outcome("duplicate-keys-list-kept");
                        }
                    } else if a != b {
                        let sats_in: std::collections::BTreeSet<u8> = entries.iter().map(|e| e.0).collect();
                        rep.violation("C16", format!("{}:entries-lost-or-changed:{}", k.number, if got.len() < entries.len() { "fewer" } else if got.len() > entries.len() { "more" } else { "different" }),
                            format!("msg {}: {} entries on {} satellites built without error, decoded {} entries", k.number, entries.len(), sats_in.len(), got.len()), size, desc());
                    } else if !grouped {
                        rep.violation("C16", format!("{}:not-grouped-by-satellite", k.number), format!("msg {}: decoded entries are not grouped by ascending satellite", k.number), size, desc());
                    } else {
                        rep.outcome("roundtrip-ok");
                    }
                }
            }
        }
    }
}

fn small_scope(rep: &mut Report, k: &Kind, tier: Tier) {
    let sats: Vec<u8> = [0u8, 1, 31, 32, 63].iter().cloned().filter(|s| *s <= k.max_sat).collect();
    let ns = k.sigs.len();
    let sig3 = [k.sigs[0], k.sigs[1], k.sigs[ns - 1]];
    // every assignment satellite -> subset of sig3 (0 = satellite absent)
    let nsat = sats.len();
    let total = 8usize.pow(nsat as u32);
    let mut counter = 0i64;
    for code in 1..total {
        if code % 512 == 0 {
            watch_enter(0x1600_0000 + k.number as u64);
        }
        let mut entries: Vec<Entry> = vec![];
        let mut c = code;
        for s in &sats {
            let sub = c % 8;
            c /= 8;
            for (j, sg) in sig3.iter().enumerate() {
                if (sub >> j) & 1 == 1 {
                    counter += 1;
                    entries.push((*s, sg.1, sg.2, (k.grid)((counter * 37) % 8000 - 4000)));
                }
            }
        }
        let ps = perms_small(entries.len());
        let lim = if entries.len() <= 5 { ps.len() } else { ps.len() };
        for p in ps.iter().take(if tier.thorough() { lim } else { lim.min(24) }) {
            let e2: Vec<Entry> = p.iter().map(|i| entries[*i]).collect();
            check_list(rep, k, &e2, "small-scope");
        }
    }
}

fn boundary(rep: &mut Report, k: &Kind) {
    let ns = k.sigs.len();
    let nsat = k.max_sat as usize + 1;
    let g = |i: usize| (k.grid)((i as i64 * 13) % 16000 - 8000);
    // all satellites x 1 signal; all but one
    for n in [nsat, nsat - 1, nsat / 2 + 1] {
        let e: Vec<Entry> = (0..n).map(|s| (s as u8, k.sigs[0].1, k.sigs[0].2, g(s))).collect();
        check_list(rep, k, &e, "all-satellites-one-signal");
        let mut r = e.clone();
        r.reverse();
        check_list(rep, k, &r, "all-satellites-one-signal-reversed");
    }
    // capacity: as many satellites x all signals as fit 390, then filled to exactly 390, 389
    let mut full: Vec<Entry> = vec![];
    'o: for s in 0..nsat {
        for sg in k.sigs {
            if full.len() >= 390 {
                break 'o;
            }
            full.push((s as u8, sg.1, sg.2, g(full.len())));
        }
    }
    check_list(rep, k, &full, "capacity");
    if full.len() > 1 {
        check_list(rep, k, &full[..full.len() - 1], "capacity-1");
    }
    // interleaved: entries of one satellite scattered through the list
    let mut scattered: Vec<Entry> = vec![];
    for (j, sg) in k.sigs.iter().enumerate() {
        for s in 0..nsat.min(8) {
            scattered.push((s as u8, sg.1, sg.2, g(j * 8 + s)));
        }
    }
    check_list(rep, k, &scattered, "scattered");
    // all signals on one satellite in every rotation, on the lowest / highest satellite
    for sat in [0u8, k.max_sat] {
        for rot in 0..ns {
            let mut e: Vec<Entry> = k.sigs.iter().enumerate().map(|(j, sg)| (sat, sg.1, sg.2, g(j))).collect();
            e.rotate_left(rot);
            check_list(rep, k, &e, "all-signals-one-satellite");
        }
    }
    // more than 31 entries on one satellite (only possible with repeated signals): 32, 33, 255..=258, 287, 288, 390
    for n in [31usize, 32, 33, 63, 64, 255, 256, 257, 258, 287, 288, 389, 390] {
        for sat in [0u8, k.max_sat] {
            let e: Vec<Entry> = (0..n).map(|i| (sat, k.sigs[i % ns].1, k.sigs[i % ns].2, g(i))).collect();
            check_list(rep, k, &e, "many-entries-one-satellite");
            // the same with a second satellite in front / behind
            let mut e2 = vec![(if sat == 0 { 1 } else { 0 }, k.sigs[0].1, k.sigs[0].2, g(999))];
            e2.extend(e.iter().cloned().take(389));
            check_list(rep, k, &e2, "many-entries-one-satellite+1");
        }
    }
    // satellite ids beyond the message's range: must be refused (or survive), alone and among valid ones
    for bad in [k.max_sat as u16 + 1, 32, 63, 64, 65, 127, 128, 255] {
        if bad <= k.max_sat as u16 || bad > 255 {
            continue;
        }
        let b = bad as u8;
        check_list(rep, k, &[(b, k.sigs[0].1, k.sigs[0].2, g(1))], "out-of-range-satellite");
        check_list(rep, k, &[(0, k.sigs[0].1, k.sigs[0].2, g(1)), (b, k.sigs[1].1, k.sigs[1].2, g(2)), (k.max_sat, k.sigs[0].1, k.sigs[0].2, g(3))], "out-of-range-satellite-among-valid");
    }
    // empty list
    check_list(rep, k, &[], "empty");
    // extreme bias values on the grid
    for kk in [-8192i64, -8191, -1, 0, 1, 8190, 8191] {
        check_list(rep, k, &[(1, k.sigs[0].1, k.sigs[0].2, (k.grid)(kk))], "bias-range");
    }
}

/// hostile 1059/1065 frames: satellite count 63, per-satellite count 31, ids recognised /
/// repeated / any, for a range of payload lengths
pub fn hostile_frames(number: u16) -> Vec<Vec<u8>> {
    let (sat_bits, sigs, hdr_bits): (usize, &[(u8, u8, char)], usize) = if number == 1059 { (6, GPS_BIAS_SIGS, 20 + 4 + 1 + 4 + 16 + 4) } else { (5, GLO_BIAS_SIGS, 17 + 4 + 1 + 4 + 16 + 4) };
    let mut out = vec![];
    // (payload length, announced satellite count): the full-length payload with every satellite count,
    // shorter payloads with the maximum count
    let mut shapes: Vec<(usize, u64)> = [1023usize, 1022, 1000, 980, 950, 900, 800, 600, 400, 100, 40, 12, 9].iter().map(|p| (*p, 63u64)).collect();
    for sc in 1..=63u64 {
        shapes.push((1023, sc));
    }
    for (plen, sat_count) in shapes {
        for sig_mode in 0..3 {
            let mut w = BitW::new();
            w.put(number as u64, 12);
            w.put(0, hdr_bits);
            w.put(sat_count, 6);
            let mut n = 0usize;
            'f: for s in 0..sat_count {
                w.put(s & ((1 << sat_bits) - 1), sat_bits);
                w.put(31, 5);
                for j in 0..31 {
                    let sid = match sig_mode {
                        0 => sigs[j % sigs.len()].0 as u64,
                        1 => sigs[0].0 as u64,
                        _ => (j % 32) as u64, // includes unrecognised ids
                    };
                    w.put(sid, 5);
                    w.put((n as u64 * 7) & 0x3fff, 14);
                    n += 1;
                    if w.len() > plen * 8 + 64 {
                        break 'f;
                    }
                }
            }
            let p = w.to_bytes_len(plen.max((w.len() + 7) / 8))[..plen].to_vec();
            out.push(make_frame(&p));
        }
    }
    out
}

fn hostile(rep: &mut Report, number: u16) {
    for f in hostile_frames(number) {
        let plen = f.len() - 6;
        rep.states += 1;
        rep.transitions += 1;
        rep.traces += 1;
        let r = catch(|| MessageFrame::new(&f).map(|fr| fr.get_message()).unwrap_or(Message::Corrupt));
        match r {
            Err(pn) => rep.violation("C16", format!("{}:hostile-panic:{}", number, pn.location), format!("msg {}: hostile frame (63 satellites x 31 biases, payload {} bytes) panics: {}", number, plen, pn.message), plen as u64, json!({"kind":"frame_decode","frame":hex(&f)})),
            Ok(m) => {
                let n = match &m {
                    Message::Msg1059(t) => Some(t.biases.len()),
                    Message::Msg1065(t) => Some(t.biases.len()),
                    _ => None,
                };
                match n {
                    Some(n) if n > 390 => rep.violation("C16", format!("{}:hostile-too-many", number), format!("msg {}: decoded {} entries", number, n), plen as u64, json!({"kind":"frame_decode","frame":hex(&f)})),
                    Some(_) => rep.outcome("hostile-typed-within-capacity"),
                    None => rep.outcome("hostile-corrupt"),
                }
            }
        }
    }
}

pub fn c16(ctx: &Ctx) -> (Report, Meta) {
    let kinds = vec![
        Kind { number: 1059, build: build1059, decode: dec1059, sigs: GPS_BIAS_SIGS, max_sat: 63, grid: grid1059 },
        Kind { number: 1065, build: build1065, decode: dec1065, sigs: GLO_BIAS_SIGS, max_sat: 31, grid: grid1065 },
    ];
    let tier = ctx.tier;
    let parts = par_shards(3, |i| {
        let mut rep = Report::new();
        watch_enter(0x1600_0000 + i as u64);
        if i < 2 {
            let k = &kinds[i];
            small_scope(&mut rep, k, tier);
            boundary(&mut rep, k);
            if i == 0 {
                hostile(&mut rep, 1059);
            } else {
                hostile(&mut rep, 1065);
            }
        } else {
            // 1230: all 15 non-empty signal subsets in all permutations, + empty
            let k = Kind { number: 1230, build: build1230, decode: dec1230, sigs: GLO_BIAS_SIGS, max_sat: 0, grid: grid1230 };
            for sub in 0..16usize {
                let e: Vec<Entry> = (0..4).filter(|j| (sub >> j) & 1 == 1).map(|j| (0, GLO_BIAS_SIGS[j].1, GLO_BIAS_SIGS[j].2, grid1230(j as i64 * 1000 - 1500 + sub as i64))).collect();
                for p in perms_small(e.len()) {
                    let e2: Vec<Entry> = p.iter().map(|i| e[*i]).collect();
                    check_list(&mut rep, &k, &e2, "1230-subsets");
                }
            }
            for kk in [-32768i64, -32767, -1, 0, 1, 32766, 32767] {
                check_list(&mut rep, &k, &[(0, 1, 'C', grid1230(kk))], "bias-range");
            }
        }
        watch_leave();
        rep
    });
    let mut rep = Report::new();
    for p in parts {
        rep.merge(p);
    }
    rep.distinct_nontrivial = rep.traces;
    rep.sample(json!({"number":1059,"entries":[[63,1,"C",0.37],[0,5,"Q",-1.2],[63,2,"W",0.01]],"expect":"Err, or decodes to the same multiset grouped by ascending satellite"}));
    rep.sample(json!({"number":1059,"scope":"all 64 satellites x 1 signal","expect":"Err (the 6-bit satellite count cannot hold 64) - never a frame that loses entries"}));
    let meta = Meta {
        rule: "1059 / 1065: every assignment of the satellites {0,1,31,32,63} (clipped to the message's range) to subsets of {first, second, last} recognised signal (8^n - 1 lists), each in every permutation for <= 5 entries (6 structured orders above; capped at 24 per list in quick); boundary scopes: all / all-but-one satellites, 390 and 389 entries, entries of a satellite scattered through the list, all signals on one satellite in every rotation, 31..390 entries on one satellite (repeated signals; relaxed oracle: no key lost, nothing invented), satellite ids beyond the message's range, empty list, extreme grid biases; 1230: all signal subsets in all permutations. Oracle: build returns Err, or the built frame decodes to the same multiset of (satellite, signal, bias) with satellites non-decreasing. Hostile frames (announced satellite count 1..=63 x 31 biases per satellite, payloads 9..1023 bytes, recognised / repeated / unrecognised ids): no panic, at most 390 entries. states = lists / frames; transitions = build and decode calls".into(),
        exhaustive: true,
        bounds: json!({"satellite_scope":[0,1,31,32,63],"signals_per_satellite":"subsets of 3","permutations":"all for <=5 entries"}),
        assumptions: vec!["bias values are grid values obtained from the real decoder for a given pattern (C08 decides the grid round trip)".into()],
    };
    (rep, meta)
}

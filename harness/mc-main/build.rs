//! Generates the data-field table from /repo/src/df/dfs.rs (every `df!( ... );` block that is
//! not commented out).  One `deffield!{...}` line per field plus the registry list.

use std::fmt::Write as _;

fn main() {
    let repo = std::env::var("VERIF_REPO").unwrap_or_else(|_| "/repo".into());
    let path = format!("{}/src/df/dfs.rs", repo);
    println!("cargo:rerun-if-changed={}", path);
    println!("cargo:rerun-if-env-changed=VERIF_REPO");
    let src = std::fs::read_to_string(&path).expect("read dfs.rs");
    // strip // comments
    let mut clean = String::new();
    for line in src.lines() {
        let l = match line.find("//") {
            Some(p) => &line[..p],
            None => line,
        };
        clean.push_str(l);
        clean.push('\n');
    }
    let mut out = String::new();
    let mut ids: Vec<String> = vec![];
    let mut groups: Vec<(String, String, Vec<String>)> = vec![];
    let mut rest = clean.as_str();
    while let Some(p) = rest.find("df!(") {
        // make sure it is not e.g. "xdf!("
        let before_ok = p == 0 || !rest.as_bytes()[p - 1].is_ascii_alphanumeric() && rest.as_bytes()[p - 1] != b'_';
        let body_start = p + 4;
        let end = rest[body_start..].find(");").expect("unterminated df!") + body_start;
        let body = &rest[body_start..end];
        rest = &rest[end + 2..];
        if !before_ok {
            continue;
        }
        let mut kv: Vec<(String, String)> = vec![];
        for line in body.lines() {
            let t = line.trim();
            if t.is_empty() {
                continue;
            }
            let t = t.strip_suffix(',').unwrap_or(t);
            if let Some(c) = t.find(':') {
                kv.push((t[..c].trim().to_string(), t[c + 1..].trim().to_string()));
            }
        }
        let get = |k: &str| kv.iter().find(|(a, _)| a == k).map(|(_, b)| b.clone());
        let id = get("id").expect("id");
        let dt = get("dt").expect("dt");
        let it = get("it").expect("it");
        let len = get("len").expect("len");
        let res = get("res").unwrap_or_default();
        let bias = get("bias").unwrap_or_default();
        let round = get("round").unwrap_or_default();
        let cap = get("cap").unwrap_or_default();
        let inv = get("inv").unwrap_or_default();
        let float = dt == "f32" || dt == "f64";
        let sig = format!("{}|{}|{}|{}|{}|{}|{}", dt, it, len, res.replace(' ', ""), bias, round, inv);
        if let Some(e) = groups.iter_mut().find(|(s, _, _)| *s == sig) {
            e.2.push(id);
            continue;
        }
        let line = format!(
            "deffield!{{ id: {id}, dt: {dt}, it: {it}, len: {len}, res: [{res}], bias: [{bias}], round: [{round}], cap: [{cap}], inv: [{inv}], float: {float}, sig: {sig:?}, merged: MERGED_ARGS }}"
        );
        groups.push((sig, line, vec![id]));
    }
    for (_, line, members) in &groups {
        let m = format!("[{}]", members.iter().map(|m| format!("{:?}", m)).collect::<Vec<_>>().join(", "));
        writeln!(out, "{}", line.replace("MERGED_ARGS", &m)).unwrap();
        ids.push(members[0].clone());
    }
    writeln!(out, "pub fn all_fields() -> Vec<&'static dyn FieldDyn> {{ vec![").unwrap();
    for id in &ids {
        writeln!(out, "    &W::<{id}>(core::marker::PhantomData),").unwrap();
    }
    writeln!(out, "] }}").unwrap();
    let dest = std::path::Path::new(&std::env::var("OUT_DIR").unwrap()).join("fields_gen.rs");
    std::fs::write(dest, out).unwrap();
}

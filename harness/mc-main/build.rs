//! Generates the data-field table from /repo/src/df/dfs.rs (every `df!( ... );` block that is
//! not commented out).  One `deffield!{...}` line per field plus the registry list.

use std::fmt::Write as _;

fn main() {
    let repo = std::env::var("VERIF_REPO").unwrap_or_else(|_| "/repo".into());
    let path = format!("{}/src/df/dfs.rs", repo);
    println!("cargo:rerun-if-changed={}", path);
    println!("cargo:rerun-if-env-changed=VERIF_REPO");
    let src = std::fs::read_to_string(&path).expect("read dfs.rs");
    // strip // comments
    let mut clean = String::new();
    for line in src.lines() {
        let l = match line.find("//") {
            Some(p) => &line[..p],
            None => line,
        };
        clean.push_str(l);
        clean.push('\n');
    }
    let mut out = String::new();
    let mut ids: Vec<String> = vec![];
    let mut groups: Vec<(String, String, Vec<String>)> = vec![];
    // strip /* */ comments as well
    let mut clean2 = String::new();
    {
        let mut rest = clean.as_str();
        while let Some(p) = rest.find("/*") {
            clean2.push_str(&rest[..p]);
            match rest[p..].find("*/") {
                Some(q) => rest = &rest[p + q + 2..],
                None => {
                    rest = "";
                    break;
                }
            }
        }
        clean2.push_str(rest);
    }
    let bytes = clean2.as_bytes();
    let mut pos = 0usize;
    while let Some(off) = clean2[pos..].find("df!") {
        let p = pos + off;
        pos = p + 3;
        // not part of a longer identifier (e.g. "xdf!"), and not the macro definition "macro_rules! df"
        if p > 0 && (bytes[p - 1].is_ascii_alphanumeric() || bytes[p - 1] == b'_') {
            continue;
        }
        // opening delimiter after optional whitespace: ( [ or {
        let mut q = p + 3;
        while q < bytes.len() && bytes[q].is_ascii_whitespace() {
            q += 1;
        }
        if q >= bytes.len() {
            break;
        }
        let (open, close) = match bytes[q] {
            b'(' => (b'(', b')'),
            b'[' => (b'[', b']'),
            b'{' => (b'{', b'}'),
            _ => continue,
        };
        // matching close delimiter (nesting-aware over all three kinds)
        let mut depth = 0i32;
        let mut end = q;
        for (i, &c) in bytes.iter().enumerate().skip(q) {
            if c == b'(' || c == b'[' || c == b'{' {
                depth += 1;
            } else if c == b')' || c == b']' || c == b'}' {
                depth -= 1;
                if depth == 0 {
                    end = i;
                    break;
                }
            }
        }
        let _ = (open, close);
        if end <= q {
            panic!("unterminated df! invocation");
        }
        let body = &clean2[q + 1..end];
        pos = end + 1;
        // split into `key: value` items at top-level commas
        let mut kv: Vec<(String, String)> = vec![];
        let mut item = String::new();
        let mut d = 0i32;
        for c in body.chars().chain(std::iter::once(',')) {
            match c {
                '(' | '[' | '{' => {
                    d += 1;
                    item.push(c);
                }
                ')' | ']' | '}' => {
                    d -= 1;
                    item.push(c);
                }
                ',' if d == 0 => {
                    let t = item.trim();
                    if let Some(cpos) = t.find(':') {
                        let key = t[..cpos].trim().to_string();
                        // normalise internal whitespace of the value
                        let val = t[cpos + 1..].split_whitespace().collect::<Vec<_>>().join(" ");
                        kv.push((key, val));
                    }
                    item.clear();
                }
                _ => item.push(c),
            }
        }
        if kv.iter().all(|(k, _)| k != "id") {
            continue; // e.g. the macro's own pattern
        }
        let get = |k: &str| kv.iter().find(|(a, _)| a == k).map(|(_, b)| b.clone());
        let id = get("id").expect("id");
        let dt = get("dt").expect("dt");
        let it = get("it").expect("it");
        let len = get("len").expect("len");
        let res = get("res").unwrap_or_default();
        let bias = get("bias").unwrap_or_default();
        let round = get("round").unwrap_or_default();
        let cap = get("cap").unwrap_or_default();
        let inv = get("inv").unwrap_or_default();
        let float = dt == "f32" || dt == "f64";
        let sig = format!("{}|{}|{}|{}|{}|{}|{}", dt, it, len, res.replace(' ', ""), bias, round, inv);
        if let Some(e) = groups.iter_mut().find(|(s, _, _)| *s == sig) {
            e.2.push(id);
            continue;
        }
        let line = format!(
            "deffield!{{ id: {id}, dt: {dt}, it: {it}, len: {len}, res: [{res}], bias: [{bias}], round: [{round}], cap: [{cap}], inv: [{inv}], float: {float}, sig: {sig:?}, merged: MERGED_ARGS }}"
        );
        groups.push((sig, line, vec![id]));
    }
    for (_, line, members) in &groups {
        let m = format!("[{}]", members.iter().map(|m| format!("{:?}", m)).collect::<Vec<_>>().join(", "));
        writeln!(out, "{}", line.replace("MERGED_ARGS", &m)).unwrap();
        ids.push(members[0].clone());
    }
    writeln!(out, "pub fn all_fields() -> Vec<&'static dyn FieldDyn> {{ vec![").unwrap();
    for id in &ids {
        writeln!(out, "    &W::<{id}>(core::marker::PhantomData),").unwrap();
    }
    writeln!(out, "] }}").unwrap();
    let dest = std::path::Path::new(&std::env::var("OUT_DIR").unwrap()).join("fields_gen.rs");
    std::fs::write(dest, out).unwrap();
}

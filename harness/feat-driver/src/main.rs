//! C19 driver: decodes the frames listed in a file ("<label> <hex frame>" per line) with the
//! rtcm-rs feature selection it was built with and prints "<label> <Debug of the message>".
use rtcm_rs::prelude::*;
use std::io::{BufRead, Write};

fn unhex(s: &str) -> Vec<u8> {
    (0..s.len() / 2).map(|i| u8::from_str_radix(&s[2 * i..2 * i + 2], 16).unwrap()).collect()
}

fn main() {
    let path = std::env::args().nth(1).expect("input file");
    let f = std::io::BufReader::new(std::fs::File::open(path).expect("open"));
    let out = std::io::stdout();
    let mut out = std::io::BufWriter::new(out.lock());
    for line in f.lines() {
        let line = line.unwrap();
        let mut it = line.split_whitespace();
        let (Some(label), Some(hex)) = (it.next(), it.next()) else { continue };
        let bytes = unhex(hex);
        let r = std::panic::catch_unwind(|| {
            let (consumed, fr) = next_msg_frame(&bytes);
            match fr {
                Some(fr) => format!("consumed={} number={:?} {:?}", consumed, fr.message_number(), fr.get_message()),
                None => format!("consumed={} no frame", consumed),
            }
        });
        match r {
            Ok(s) => writeln!(out, "{} {}", label, s).unwrap(),
            Err(_) => writeln!(out, "{} PANIC", label).unwrap(),
        }
    }
}

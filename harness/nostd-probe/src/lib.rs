//! C19 no_std probe: a `#![no_std]` static library with its own panic handler that calls into
//! rtcm-rs.  If rtcm-rs or one of its dependencies pulled in the standard library for the
//! selected feature set, std's panic handler collides with this one and the build fails
//! ("found duplicate lang item `panic_impl`").
#![no_std]

use rtcm_rs::prelude::*;

#[panic_handler]
fn panic(_: &core::panic::PanicInfo) -> ! {
    loop {}
}

#[no_mangle]
pub extern "C" fn probe(ptr: *const u8, len: usize) -> usize {
    // SAFETY: probe is never called; it only has to type-check and link
    let data = unsafe { core::slice::from_raw_parts(ptr, len) };
    let (consumed, fr) = next_msg_frame(data);
    let mut n = consumed;
    if let Some(fr) = fr {
        let m = fr.get_message();
        let mut b = MessageBuilder::new();
        if let Ok(bytes) = b.build_message(&m) {
            n += bytes.len();
        }
    }
    n
}

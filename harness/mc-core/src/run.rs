//! Execution helpers: panic capture, deterministic sharded parallelism, watchdog.

use std::cell::RefCell;
use std::panic::{catch_unwind, AssertUnwindSafe};
use std::sync::atomic::{AtomicU64, AtomicUsize, Ordering};
use std::sync::{Mutex, Once};
use std::time::{Duration, Instant};

#[derive(Debug, Clone, PartialEq, Eq, Hash, PartialOrd, Ord)]
pub struct PanicRec {
    pub location: String,
    pub message: String,
}

thread_local! {
    static LAST_PANIC: RefCell<Option<PanicRec>> = RefCell::new(None);
    static CAPTURING: RefCell<bool> = RefCell::new(false);
}
static HOOK: Once = Once::new();

fn short_loc(file: &str) -> String {
    // strip cargo registry / toolchain prefixes so that keys are stable across machines
    if let Some(p) = file.find("/registry/src/") {
        let rest = &file[p + "/registry/src/".len()..];
        if let Some(q) = rest.find('/') {
            return rest[q + 1..].to_string();
        }
    }
    if file.starts_with("/rustc/") {
        if let Some(p) = file.find("/library/") {
            return file[p + 1..].to_string();
        }
    }
    if let Some(p) = file.find("/rustlib/src/rust/") {
        return file[p + "/rustlib/src/rust/".len()..].to_string();
    }
    if let Some(rest) = file.strip_prefix("/repo/") {
        return rest.to_string();
    }
    file.to_string()
}

pub fn install_panic_hook() {
    HOOK.call_once(|| {
        let default = std::panic::take_hook();
        std::panic::set_hook(Box::new(move |info| {
            let capturing = CAPTURING.with(|c| *c.borrow());
            if capturing {
                let location = info
                    .location()
                    .map(|l| format!("{}:{}", short_loc(l.file()), l.line()))
                    .unwrap_or_else(|| "?".into());
                let message = if let Some(s) = info.payload().downcast_ref::<&str>() {
                    s.to_string()
                } else if let Some(s) = info.payload().downcast_ref::<String>() {
                    s.clone()
                } else {
                    "?".into()
                };
                LAST_PANIC.with(|p| *p.borrow_mut() = Some(PanicRec { location, message }));
            } else {
                default(info);
            }
        }));
    });
}

/// Run subject code; a panic becomes Err(PanicRec) (silently).
pub fn catch<T>(f: impl FnOnce() -> T) -> Result<T, PanicRec> {
    install_panic_hook();
    // nesting-safe: an inner catch must not switch capturing off for the outer one
    let prev = CAPTURING.with(|c| c.replace(true));
    let r = catch_unwind(AssertUnwindSafe(f));
    CAPTURING.with(|c| *c.borrow_mut() = prev);
    match r {
        Ok(v) => Ok(v),
        Err(_) => Err(LAST_PANIC
            .with(|p| p.borrow_mut().take())
            .unwrap_or(PanicRec { location: "?".into(), message: "?".into() })),
    }
}

pub fn n_workers() -> usize {
    std::env::var("VERIF_JOBS")
        .ok()
        .and_then(|s| s.parse().ok())
        .unwrap_or_else(|| std::thread::available_parallelism().map(|n| n.get()).unwrap_or(4))
        .max(1)
}

/// Run f(shard) for shard in 0..n on a pool; results are returned in shard order,
/// so merged output is independent of scheduling.
pub fn par_shards<T: Send, F: Fn(usize) -> T + Sync>(n: usize, f: F) -> Vec<T> {
    let next = AtomicUsize::new(0);
    let results: Mutex<Vec<Option<T>>> = Mutex::new((0..n).map(|_| None).collect());
    let workers = n_workers().min(n.max(1));
    std::thread::scope(|s| {
        for _ in 0..workers {
            s.spawn(|| loop {
                let i = next.fetch_add(1, Ordering::Relaxed);
                if i >= n {
                    break;
                }
                let r = f(i);
                results.lock().unwrap()[i] = Some(r);
            });
        }
    });
    results.into_inner().unwrap().into_iter().map(|x| x.unwrap()).collect()
}

// ---------------------------------------------------------------------------
// Watchdog: an execution of subject code that lasts longer than the limit is a
// machinery failure (exit 2), never a verdict.

const SLOTS: usize = 256;
static SLOT_START: [AtomicU64; SLOTS] = [const { AtomicU64::new(0) }; SLOTS];
static SLOT_ID: [AtomicU64; SLOTS] = [const { AtomicU64::new(0) }; SLOTS];
static SLOT_NEXT: AtomicUsize = AtomicUsize::new(0);
static WD: Once = Once::new();
static T0: std::sync::OnceLock<Instant> = std::sync::OnceLock::new();

thread_local! {
    static MY_SLOT: usize = SLOT_NEXT.fetch_add(1, Ordering::Relaxed) % SLOTS;
}

fn now_ms() -> u64 {
    T0.get_or_init(Instant::now).elapsed().as_millis() as u64 + 1
}

pub fn watchdog_start(limit_s: u64) {
    WD.call_once(|| {
        let _ = now_ms();
        std::thread::spawn(move || loop {
            std::thread::sleep(Duration::from_millis(1000));
            let now = now_ms();
            for i in 0..SLOTS {
                let st = SLOT_START[i].load(Ordering::Relaxed);
                if st != 0 && now > st + limit_s * 1000 {
                    let id = SLOT_ID[i].load(Ordering::Relaxed);
                    println!(
                        "MACHINERY-FAILURE: one execution exceeded {} s (case id {:#x}); not a verdict",
                        limit_s, id
                    );
                    std::process::exit(2);
                }
            }
        });
    });
}

/// Mark the start of one (or a small batch of) subject execution(s).
#[inline]
pub fn watch_enter(id: u64) {
    MY_SLOT.with(|s| {
        SLOT_ID[*s].store(id, Ordering::Relaxed);
        SLOT_START[*s].store(now_ms_fast(), Ordering::Relaxed);
    });
}
#[inline]
pub fn watch_leave() {
    MY_SLOT.with(|s| SLOT_START[*s].store(0, Ordering::Relaxed));
}
fn now_ms_fast() -> u64 {
    now_ms()
}

//! Evidence writer, violation / replay records, known-findings filter.

use serde_json::{json, Map, Value};
use std::collections::BTreeMap;
use std::path::PathBuf;
use std::time::Instant;

#[derive(Debug, Clone, Copy, PartialEq, Eq)]
pub enum Tier {
    Quick,
    Thorough,
}
impl Tier {
    pub fn name(self) -> &'static str {
        match self {
            Tier::Quick => "quick",
            Tier::Thorough => "thorough",
        }
    }
    pub fn thorough(self) -> bool {
        self == Tier::Thorough
    }
    /// pick by tier
    pub fn pick<T>(self, q: T, t: T) -> T {
        match self {
            Tier::Quick => q,
            Tier::Thorough => t,
        }
    }
}

#[derive(Debug, Clone)]
pub struct Known {
    pub property: String,
    pub key: String,
    pub status: String,
    pub what: String,
}

pub struct Ctx {
    pub prop: String,
    pub tier: Tier,
    pub seed: u64,
    pub root: PathBuf,
    pub profile: String,
    pub out: Option<PathBuf>,
    pub replay: Option<PathBuf>,
    pub start: Instant,
    pub known: Vec<Known>,
    pub args: Vec<String>,
}

impl Ctx {
    /// `<bin> <Cxx> [--tier quick|thorough] [--out file] [--replay file] [--root dir] [--profile name]`
    pub fn from_args() -> Ctx {
        let args: Vec<String> = std::env::args().skip(1).collect();
        let mut prop = String::new();
        let mut tier = match std::env::var("VERIF_TIER").ok().as_deref() {
            Some("thorough") => Tier::Thorough,
            _ => Tier::Quick,
        };
        let mut out = None;
        let mut replay = None;
        let mut root = PathBuf::from(std::env::var("VERIF_ROOT").unwrap_or_else(|_| "/verif".into()));
        let mut profile = std::env::var("VERIF_PROFILE").unwrap_or_else(|_| "release".into());
        let mut rest = Vec::new();
        let mut i = 0;
        while i < args.len() {
            match args[i].as_str() {
                "--tier" => {
                    i += 1;
                    tier = if args[i] == "thorough" { Tier::Thorough } else { Tier::Quick };
                }
                "--out" => {
                    i += 1;
                    out = Some(PathBuf::from(&args[i]));
                }
                "--replay" => {
                    i += 1;
                    replay = Some(PathBuf::from(&args[i]));
                }
                "--root" => {
                    i += 1;
                    root = PathBuf::from(&args[i]);
                }
                "--profile" => {
                    i += 1;
                    profile = args[i].clone();
                }
                a if prop.is_empty() && !a.starts_with("--") => prop = a.to_string(),
                a => rest.push(a.to_string()),
            }
            i += 1;
        }
        let seed = std::env::var("VERIF_SEED").ok().and_then(|s| s.parse::<i64>().ok()).unwrap_or(0) as u64;
        let known = load_known(&root);
        Ctx { prop, tier, seed, root, profile, out, replay, start: Instant::now(), known, args: rest }
    }
    pub fn is_known(&self, prop: &str, key: &str) -> Option<&Known> {
        self.known.iter().find(|k| k.status == "known" && k.property == prop && k.key == key)
    }
}

fn load_known(root: &PathBuf) -> Vec<Known> {
    let p = root.join("known_findings.json");
    let Ok(s) = std::fs::read_to_string(&p) else { return vec![] };
    let Ok(v) = serde_json::from_str::<Value>(&s) else {
        println!("MACHINERY-FAILURE: {} is not valid JSON", p.display());
        std::process::exit(2);
    };
    let mut out = vec![];
    if let Some(arr) = v.get("findings").and_then(|f| f.as_array()) {
        for e in arr {
            out.push(Known {
                property: e["property"].as_str().unwrap_or("").to_string(),
                key: e["key"].as_str().unwrap_or("").to_string(),
                status: e["status"].as_str().unwrap_or("").to_string(),
                what: e["what"].as_str().unwrap_or("").to_string(),
            });
        }
    }
    out
}

#[derive(Debug, Clone)]
pub struct Violation {
    pub property: String,
    pub key: String,
    pub what: String,
    /// everything needed to re-run this one execution: {"kind": "...", ...}
    pub replay: Value,
    /// size measure used to keep the smallest witness per key
    pub size: u64,
    pub count: u64,
}

/// Mergeable result of (a shard of) an exploration.
#[derive(Default, Clone)]
pub struct Report {
    pub states: u64,
    pub transitions: u64,
    pub traces: u64,
    pub evaluations: u64,
    pub distinct_nontrivial: u64,
    pub outcomes: BTreeMap<String, u64>,
    pub samples: Vec<Value>,
    pub viol: BTreeMap<(String, String), Violation>,
    pub viol_total: u64,
    pub extra: Map<String, Value>,
    pub notes: Vec<String>,
}

pub const MAX_SAMPLES: usize = 12;

impl Report {
    pub fn new() -> Self {
        Self::default()
    }
    pub fn outcome(&mut self, name: &str) {
        *self.outcomes.entry(name.to_string()).or_insert(0) += 1;
    }
    pub fn outcome_n(&mut self, name: &str, n: u64) {
        *self.outcomes.entry(name.to_string()).or_insert(0) += n;
    }
    pub fn sample(&mut self, v: Value) {
        if self.samples.len() < MAX_SAMPLES {
            self.samples.push(v);
        }
    }
    pub fn violation(&mut self, property: &str, key: String, what: String, size: u64, replay: Value) {
        self.viol_total += 1;
        let k = (property.to_string(), key.clone());
        match self.viol.get_mut(&k) {
            Some(v) => {
                v.count += 1;
                if size < v.size {
                    v.size = size;
                    v.what = what;
                    v.replay = replay;
                }
            }
            None => {
                if self.viol.len() < 4000 {
                    self.viol.insert(k, Violation { property: property.to_string(), key, what, replay, size, count: 1 });
                }
            }
        }
    }
    /// like `violation`, but `what` and `replay` are only computed when this occurrence is kept
    pub fn violation_lazy(&mut self, property: &str, key: String, size: u64, f: impl FnOnce() -> (String, Value)) {
        let k = (property.to_string(), key.clone());
        match self.viol.get_mut(&k) {
            Some(v) if size >= v.size => {
                v.count += 1;
                self.viol_total += 1;
            }
            _ => {
                let (what, replay) = f();
                self.violation(property, key, what, size, replay);
            }
        }
    }
    pub fn merge(&mut self, o: Report) {
        self.states += o.states;
        self.transitions += o.transitions;
        self.traces += o.traces;
        self.evaluations += o.evaluations;
        self.distinct_nontrivial += o.distinct_nontrivial;
        for (k, v) in o.outcomes {
            *self.outcomes.entry(k).or_insert(0) += v;
        }
        for s in o.samples {
            self.sample(s);
        }
        self.viol_total += o.viol_total;
        for (k, v) in o.viol {
            match self.viol.get_mut(&k) {
                Some(e) => {
                    e.count += v.count;
                    if v.size < e.size {
                        e.size = v.size;
                        e.what = v.what;
                        e.replay = v.replay;
                    }
                }
                None => {
                    self.viol.insert(k, v);
                }
            }
        }
        for (k, v) in o.extra {
            // numeric extras are summed, others: first wins
            match (self.extra.get(&k).and_then(|x| x.as_u64()), v.as_u64()) {
                (Some(a), Some(b)) => {
                    self.extra.insert(k, json!(a + b));
                }
                _ => {
                    self.extra.entry(k).or_insert(v);
                }
            }
        }
        self.notes.extend(o.notes);
    }
    pub fn add_extra_u64(&mut self, k: &str, n: u64) {
        let cur = self.extra.get(k).and_then(|x| x.as_u64()).unwrap_or(0);
        self.extra.insert(k.to_string(), json!(cur + n));
    }
}

pub struct Meta {
    pub rule: String,
    pub exhaustive: bool,
    pub bounds: Value,
    pub assumptions: Vec<String>,
}

fn sanitize(s: &str) -> String {
    s.chars().map(|c| if c.is_ascii_alphanumeric() || c == '-' || c == '_' || c == '.' { c } else { '_' }).collect()
}

/// Write replays, print VIOLATION / KNOWN-FINDING lines, write the evidence file; returns exit code.
/// Violations recorded under another property id than ctx.prop (an engine shared between
/// properties) are reported under the id they were recorded with only if `foreign` allows it.
pub fn finish(ctx: &Ctx, rep: &Report, meta: Meta) -> i32 {
    let mut n_new = 0u64;
    let mut n_known = 0u64;
    let mut lines = vec![];
    // stale replay files of earlier runs of this property/profile are removed first
    {
        let dir = ctx.root.join("replays").join(&ctx.prop);
        if let Ok(rd) = std::fs::read_dir(&dir) {
            for e in rd.flatten() {
                if e.file_name().to_string_lossy().starts_with(&format!("{}-", ctx.profile)) {
                    let _ = std::fs::remove_file(e.path());
                }
            }
        }
    }
    for ((prop, key), v) in &rep.viol {
        if prop != &ctx.prop {
            continue;
        }
        if let Some(k) = ctx.is_known(prop, key) {
            n_known += 1;
            println!("KNOWN-FINDING: property={} key={} {} (seen {} times this run)", prop, key, k.what, v.count);
            continue;
        }
        n_new += 1;
        let dir = ctx.root.join("replays").join(prop);
        let _ = std::fs::create_dir_all(&dir);
        let name = format!("{}-{}-{:016x}.json", ctx.profile, sanitize(&key.chars().take(60).collect::<String>()), crate::fnv64(key.as_bytes()));
        let path = dir.join(name);
        let body = json!({
            "property": prop, "key": key, "what": v.what, "profile": ctx.profile, "tier": ctx.tier.name(),
            "occurrences_this_run": v.count, "replay": v.replay,
        });
        let _ = std::fs::write(&path, serde_json::to_string_pretty(&body).unwrap());
        if lines.len() < 200 {
            lines.push(format!("VIOLATION property={} replay={}", prop, path.display()));
            println!("  what: {}", v.what);
            println!("VIOLATION property={} replay={}", prop, path.display());
        }
    }
    let mut coverage = Map::new();
    coverage.insert("states".into(), json!(rep.states.max(1)));
    coverage.insert("transitions".into(), json!(rep.transitions.max(1)));
    coverage.insert("traces_validated_against_impl".into(), json!(rep.traces));
    coverage.insert("evaluations".into(), json!(rep.evaluations.max(rep.transitions).max(1)));
    coverage.insert("distinct_nontrivial".into(), json!(rep.distinct_nontrivial));
    coverage.insert("rule".into(), json!(meta.rule));
    coverage.insert("exhaustive".into(), json!(meta.exhaustive));
    coverage.insert("bounds".into(), meta.bounds);
    coverage.insert("outcomes".into(), json!(rep.outcomes));
    coverage.insert("distinct_outcomes".into(), json!(rep.outcomes.len()));
    let samples = if rep.samples.is_empty() { vec![json!("(no sample recorded)")] } else { rep.samples.clone() };
    coverage.insert("samples".into(), json!(samples));
    coverage.insert("profile".into(), json!(ctx.profile));
    coverage.insert("known_findings_matched".into(), json!(n_known));
    if !rep.notes.is_empty() {
        coverage.insert("notes".into(), json!(rep.notes));
    }
    for (k, v) in &rep.extra {
        coverage.insert(k.clone(), v.clone());
    }
    let ev = json!({
        "property_id": ctx.prop,
        "tier": ctx.tier.name(),
        "seed": ctx.seed as i64,
        "level": "model_checking",
        "coverage": coverage,
        "assumptions": meta.assumptions,
        "wall_s": ctx.start.elapsed().as_secs_f64(),
        "violations": n_new as i64,
    });
    let out = ctx.out.clone().unwrap_or_else(|| ctx.root.join("evidence").join(format!("{}.json", ctx.prop)));
    if let Some(d) = out.parent() {
        let _ = std::fs::create_dir_all(d);
    }
    if let Err(e) = std::fs::write(&out, serde_json::to_string_pretty(&ev).unwrap()) {
        println!("MACHINERY-FAILURE: cannot write evidence {}: {}", out.display(), e);
        return 2;
    }
    println!(
        "{} [{} / {}]: states={} transitions={} validated={} outcomes={} violations={} known={} wall={:.1}s",
        ctx.prop,
        ctx.tier.name(),
        ctx.profile,
        rep.states,
        rep.transitions,
        rep.traces,
        rep.outcomes.len(),
        n_new,
        n_known,
        ctx.start.elapsed().as_secs_f64()
    );
    if n_new > 0 {
        1
    } else {
        0
    }
}

//! Reference models. Everything here is written from the statement of the
//! properties / the RTCM standard and shares no code with rtcm-rs.

/// CRC-24Q, bit by bit: generator 0x1864CFB, zero initial value, no reflection, no final xor.
pub fn crc24q(bytes: &[u8]) -> u32 {
    let mut crc: u32 = 0;
    for &b in bytes {
        crc ^= (b as u32) << 16;
        for _ in 0..8 {
            crc <<= 1;
            if crc & 0x1000000 != 0 {
                crc ^= 0x1864CFB;
            }
        }
    }
    crc & 0xFFFFFF
}

/// Table driven variant of the same CRC (table built from the bit-wise definition),
/// used only where the bit-wise loop would dominate run time.  `crc24q_fast == crc24q`
/// is asserted by a unit test and by `selftest()`.
pub struct Crc24Table([u32; 256]);
impl Crc24Table {
    pub fn new() -> Self {
        let mut t = [0u32; 256];
        for i in 0..256u32 {
            let mut crc = i << 16;
            for _ in 0..8 {
                crc <<= 1;
                if crc & 0x1000000 != 0 {
                    crc ^= 0x1864CFB;
                }
            }
            t[i as usize] = crc & 0xFFFFFF;
        }
        Crc24Table(t)
    }
    #[inline]
    pub fn crc(&self, bytes: &[u8]) -> u32 {
        let mut crc: u32 = 0;
        for &b in bytes {
            crc = ((crc << 8) & 0xFFFFFF) ^ self.0[(((crc >> 16) as u8) ^ b) as usize];
        }
        crc
    }
    #[inline]
    pub fn update(&self, mut crc: u32, bytes: &[u8]) -> u32 {
        for &b in bytes {
            crc = ((crc << 8) & 0xFFFFFF) ^ self.0[(((crc >> 16) as u8) ^ b) as usize];
        }
        crc
    }
}
impl Default for Crc24Table {
    fn default() -> Self {
        Self::new()
    }
}

/// Build a frame around `payload` (len <= 1023) with the six reserved header bits given.
pub fn make_frame_r(payload: &[u8], reserved: u8) -> Vec<u8> {
    assert!(payload.len() <= 1023);
    let l = payload.len();
    let mut f = Vec::with_capacity(l + 6);
    f.push(0xD3);
    f.push(((reserved & 0x3f) << 2) | ((l >> 8) as u8 & 3));
    f.push((l & 0xff) as u8);
    f.extend_from_slice(payload);
    let c = crc24q(&f);
    f.push((c >> 16) as u8);
    f.push((c >> 8) as u8);
    f.push(c as u8);
    f
}
pub fn make_frame(payload: &[u8]) -> Vec<u8> {
    make_frame_r(payload, 0)
}
/// Same as make_frame but using the table CRC (for hot loops).
pub fn make_frame_fast(t: &Crc24Table, payload: &[u8], out: &mut Vec<u8>) {
    let l = payload.len();
    out.clear();
    out.push(0xD3);
    out.push((l >> 8) as u8 & 3);
    out.push((l & 0xff) as u8);
    out.extend_from_slice(payload);
    let c = t.crc(out);
    out.push((c >> 16) as u8);
    out.push((c >> 8) as u8);
    out.push(c as u8);
}

#[derive(Debug, Clone, Copy, PartialEq, Eq)]
pub enum Class {
    /// complete and valid; total frame length
    Valid(usize),
    /// starts with D3 but shorter than its declared extent (or than 6 bytes)
    Incomplete,
    /// complete candidate with wrong checksum, or not starting with D3
    Invalid,
}

/// The acceptance predicate of C03, written down literally.
pub fn classify(s: &[u8]) -> Class {
    if s.is_empty() {
        return Class::Incomplete; // nothing can be said; callers never ask for this except C03's table
    }
    if s[0] != 0xD3 {
        return Class::Invalid;
    }
    if s.len() < 3 {
        return Class::Incomplete;
    }
    let l = (((s[1] & 3) as usize) << 8) | s[2] as usize;
    if s.len() < l + 6 {
        return Class::Incomplete;
    }
    let c = crc24q(&s[..l + 3]);
    let got = ((s[l + 3] as u32) << 16) | ((s[l + 4] as u32) << 8) | s[l + 5] as u32;
    if c == got {
        Class::Valid(l + 6)
    } else {
        Class::Invalid
    }
}

/// The scanner of C05, written down literally: earliest D3 position that is complete
/// and valid, unless an earlier D3 starts a still-incomplete candidate.
/// Returns (consumed, Some((start,end))).
pub fn ref_scan(buf: &[u8]) -> (usize, Option<(usize, usize)>) {
    for i in 0..buf.len() {
        if buf[i] == 0xD3 {
            match classify(&buf[i..]) {
                Class::Valid(n) => return (i + n, Some((i, i + n))),
                Class::Incomplete => return (i, None),
                Class::Invalid => {}
            }
        }
    }
    (buf.len(), None)
}

/// MSB-first bit writer on a Vec<bool>.
#[derive(Default, Clone)]
pub struct BitW {
    pub bits: Vec<bool>,
}
impl BitW {
    pub fn new() -> Self {
        BitW { bits: Vec::new() }
    }
    pub fn len(&self) -> usize {
        self.bits.len()
    }
    pub fn is_empty(&self) -> bool {
        self.bits.is_empty()
    }
    /// low `w` bits of v, most significant first
    pub fn put(&mut self, v: u64, w: usize) {
        for i in (0..w).rev() {
            self.bits.push(if i >= 64 { false } else { (v >> i) & 1 == 1 });
        }
    }
    pub fn put_i(&mut self, v: i64, w: usize) {
        self.put(v as u64, w)
    }
    /// sign bit then |v| in w-1 bits
    pub fn put_sm(&mut self, v: i64, w: usize) {
        self.bits.push(v < 0);
        self.put(v.unsigned_abs(), w - 1);
    }
    pub fn to_bytes(&self) -> Vec<u8> {
        let mut out = vec![0u8; (self.bits.len() + 7) / 8];
        for (i, b) in self.bits.iter().enumerate() {
            if *b {
                out[i / 8] |= 0x80 >> (i % 8);
            }
        }
        out
    }
    pub fn to_bytes_len(&self, n: usize) -> Vec<u8> {
        let mut v = self.to_bytes();
        v.resize(n, 0);
        v
    }
}

pub fn get_bit(buf: &[u8], i: usize) -> bool {
    buf[i / 8] & (0x80 >> (i % 8)) != 0
}
pub fn set_bit(buf: &mut [u8], i: usize, v: bool) {
    if v {
        buf[i / 8] |= 0x80 >> (i % 8);
    } else {
        buf[i / 8] &= !(0x80 >> (i % 8));
    }
}
/// read w (<=64) bits MSB first starting at bit `off`
pub fn get_bits(buf: &[u8], off: usize, w: usize) -> u64 {
    let mut v = 0u64;
    for i in 0..w {
        v = (v << 1) | get_bit(buf, off + i) as u64;
    }
    v
}
pub fn set_bits(buf: &mut [u8], off: usize, w: usize, v: u64) {
    for i in 0..w {
        let bit = if w - 1 - i >= 64 { false } else { (v >> (w - 1 - i)) & 1 == 1 };
        set_bit(buf, off + i, bit);
    }
}

/// RTCM 10403.3 MSM signal tables (tables 3.5-91, -96, -99, -102, -105, -108, NavIC amendment),
/// typed in from the standard and cross-read against RTKLIB's msm_sig_* arrays.
/// (mask position 1..=32, band, attribute)
pub const SIG_GPS: &[(u8, u8, char)] = &[
    (2, 1, 'C'), (3, 1, 'P'), (4, 1, 'W'), (8, 2, 'C'), (9, 2, 'P'), (10, 2, 'W'),
    (15, 2, 'S'), (16, 2, 'L'), (17, 2, 'X'), (22, 5, 'I'), (23, 5, 'Q'), (24, 5, 'X'),
    (30, 1, 'S'), (31, 1, 'L'), (32, 1, 'X'),
];
pub const SIG_GLO: &[(u8, u8, char)] = &[(2, 1, 'C'), (3, 1, 'P'), (8, 2, 'C'), (9, 2, 'P')];
pub const SIG_GAL: &[(u8, u8, char)] = &[
    (2, 1, 'C'), (3, 1, 'A'), (4, 1, 'B'), (5, 1, 'X'), (6, 1, 'Z'),
    (8, 6, 'C'), (9, 6, 'A'), (10, 6, 'B'), (11, 6, 'X'), (12, 6, 'Z'),
    (14, 7, 'I'), (15, 7, 'Q'), (16, 7, 'X'), (18, 8, 'I'), (19, 8, 'Q'), (20, 8, 'X'),
    (22, 5, 'I'), (23, 5, 'Q'), (24, 5, 'X'),
];
pub const SIG_SBAS: &[(u8, u8, char)] = &[(2, 1, 'C'), (22, 5, 'I'), (23, 5, 'Q'), (24, 5, 'X')];
pub const SIG_QZSS: &[(u8, u8, char)] = &[
    (2, 1, 'C'), (9, 6, 'S'), (10, 6, 'L'), (11, 6, 'X'), (15, 2, 'S'), (16, 2, 'L'), (17, 2, 'X'),
    (22, 5, 'I'), (23, 5, 'Q'), (24, 5, 'X'), (30, 1, 'S'), (31, 1, 'L'), (32, 1, 'X'),
];
pub const SIG_BDS: &[(u8, u8, char)] = &[
    (2, 2, 'I'), (3, 2, 'Q'), (4, 2, 'X'), (8, 6, 'I'), (9, 6, 'Q'), (10, 6, 'X'),
    (14, 7, 'I'), (15, 7, 'Q'), (16, 7, 'X'), (22, 5, 'D'), (23, 5, 'P'), (24, 5, 'X'),
    (25, 7, 'D'), (30, 1, 'D'), (31, 1, 'P'), (32, 1, 'X'),
];
pub const SIG_NAVIC: &[(u8, u8, char)] = &[(8, 9, 'A'), (22, 5, 'A')];

#[cfg(test)]
mod tests {
    use super::*;
    #[test]
    fn crc_known_frame() {
        // RTCM 1005 example frame widely quoted in the literature (station 2003)
        let f = crate::unhex("D300133ED7D30202980EDEEF34B4BD62AC0941986F33360B98");
        assert_eq!(classify(&f), Class::Valid(25));
        let t = Crc24Table::new();
        for n in 0..f.len() {
            assert_eq!(t.crc(&f[..n]), crc24q(&f[..n]));
        }
        // CRC-24Q check value of "123456789" (catalogue of parametrised CRCs: CRC-24/LTE-A = 0xCDE703)
        assert_eq!(crc24q(b"123456789"), 0xCDE703);
    }
    #[test]
    fn bitw() {
        let mut w = BitW::new();
        w.put(0b101, 3);
        w.put_i(-2, 4);
        w.put_sm(-3, 4);
        assert_eq!(w.to_bytes(), vec![0b1011_1101, 0b0110_0000]);
        assert_eq!(get_bits(&w.to_bytes(), 3, 4), 0b1110);
    }
}

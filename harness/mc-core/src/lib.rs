//! Shared machinery of the rtcm-rs bounded-exhaustive checks:
//! reference models (deliberately boring), panic capture, evidence writer,
//! violation / replay records and the known-findings filter.

pub mod evidence;
pub mod refmodel;
pub mod run;
pub mod text;

pub use evidence::*;
pub use refmodel::*;
pub use run::*;

pub fn hex(b: &[u8]) -> String {
    let mut s = String::with_capacity(b.len() * 2);
    for x in b {
        s.push_str(&format!("{:02x}", x));
    }
    s
}

pub fn unhex(s: &str) -> Vec<u8> {
    let s: Vec<u8> = s.bytes().filter(|c| c.is_ascii_hexdigit()).collect();
    s.chunks(2)
        .map(|c| u8::from_str_radix(std::str::from_utf8(c).unwrap(), 16).unwrap())
        .collect()
}

/// FNV-1a 64-bit, used for digests and file names (deterministic, no RandomState).
pub fn fnv64(data: &[u8]) -> u64 {
    let mut h: u64 = 0xcbf29ce484222325;
    for b in data {
        h ^= *b as u64;
        h = h.wrapping_mul(0x100000001b3);
    }
    h
}
pub fn fnv64_add(mut h: u64, data: &[u8]) -> u64 {
    for b in data {
        h ^= *b as u64;
        h = h.wrapping_mul(0x100000001b3);
    }
    h
}

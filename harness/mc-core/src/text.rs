//! Text reference models for C17.

/// Latin-1 mapping of the statement: code 1..=255 -> that byte, everything else -> 0xA4.
pub fn latin1_byte(c: char) -> u8 {
    let code = c as u32;
    if (1..=255).contains(&code) {
        code as u8
    } else {
        0xA4
    }
}
/// Reference conversion to a descriptor field of capacity n: first n characters, mapped.
pub fn ref_latin1(s: &str, n: usize) -> Vec<u8> {
    s.chars().take(n).map(latin1_byte).collect()
}
/// Reading a descriptor byte back as a character.
pub fn latin1_char(b: u8) -> char {
    if b == 0 {
        '\u{a4}'
    } else {
        char::from_u32(b as u32).unwrap()
    }
}
/// Longest prefix of whole characters that fits n bytes.
pub fn ref_utf8_prefix(s: &str, n: usize) -> String {
    let mut out = String::new();
    for c in s.chars() {
        if out.len() + c.len_utf8() > n {
            break;
        }
        out.push(c);
    }
    out
}

/// Hand-written UTF-8 validator (Unicode 15 table 3-7), independent of core::str::from_utf8.
pub fn utf8_valid(b: &[u8]) -> bool {
    let mut i = 0;
    let n = b.len();
    while i < n {
        let c = b[i];
        let (len, lo, hi): (usize, u8, u8) = match c {
            0x00..=0x7F => {
                i += 1;
                continue;
            }
            0xC2..=0xDF => (2, 0x80, 0xBF),
            0xE0 => (3, 0xA0, 0xBF),
            0xE1..=0xEC => (3, 0x80, 0xBF),
            0xED => (3, 0x80, 0x9F),
            0xEE..=0xEF => (3, 0x80, 0xBF),
            0xF0 => (4, 0x90, 0xBF),
            0xF1..=0xF3 => (4, 0x80, 0xBF),
            0xF4 => (4, 0x80, 0x8F),
            _ => return false,
        };
        if i + len > n {
            return false;
        }
        if b[i + 1] < lo || b[i + 1] > hi {
            return false;
        }
        for k in 2..len {
            if b[i + k] < 0x80 || b[i + k] > 0xBF {
                return false;
            }
        }
        i += len;
    }
    true
}

#[cfg(test)]
mod tests {
    use super::*;
    #[test]
    fn validator_agrees_with_core_on_all_short_sequences() {
        for a in 0..=255u8 {
            assert_eq!(utf8_valid(&[a]), core::str::from_utf8(&[a]).is_ok());
            for b in 0..=255u8 {
                assert_eq!(utf8_valid(&[a, b]), core::str::from_utf8(&[a, b]).is_ok(), "{:x} {:x}", a, b);
            }
        }
        // all 3-byte sequences with a lead byte >= 0xC0 and selected 4-byte ones
        for a in 0xC0..=255u8 {
            for b in 0..=255u8 {
                for c in (0..=255u8).step_by(1) {
                    let s = [a, b, c];
                    assert_eq!(utf8_valid(&s), core::str::from_utf8(&s).is_ok());
                }
            }
        }
        for a in 0xF0..=0xF5u8 {
            for b in (0x70..=0xC0u8).step_by(1) {
                for c in [0x7F, 0x80, 0xBF, 0xC0] {
                    for d in [0x7F, 0x80, 0xBF, 0xC0] {
                        let s = [a, b, c, d];
                        assert_eq!(utf8_valid(&s), core::str::from_utf8(&s).is_ok());
                    }
                }
            }
        }
    }
    #[test]
    fn prefix() {
        assert_eq!(ref_utf8_prefix("aé€", 3), "aé");
        assert_eq!(ref_utf8_prefix("aé€", 6), "aé€");
        assert_eq!(ref_latin1("A\0é€", 3), vec![0x41, 0xA4, 0xE9]);
    }
}

//! VTree: an in-memory self-describing value tree with its own serde Serializer / Deserializer.
//! It is (1) the generic, type-directed way to construct arbitrary `Message` values through the
//! public API (`Message: Deserialize`) and (2) one of the two data models of C20.

use serde::de::{self, DeserializeSeed, EnumAccess, IntoDeserializer, MapAccess, SeqAccess, VariantAccess, Visitor};
use serde::ser::{self, Serialize};
use std::fmt;

#[derive(Clone, Debug, PartialEq)]
pub enum VTree {
    Bool(bool),
    U8(u8),
    U16(u16),
    U32(u32),
    U64(u64),
    I8(i8),
    I16(i16),
    I32(i32),
    I64(i64),
    F32(f32),
    F64(f64),
    Char(char),
    Str(String),
    Bytes(Vec<u8>),
    Unit,
    None,
    Some(Box<VTree>),
    Seq(Vec<VTree>),
    Tuple(Vec<VTree>),
    Struct(&'static str, Vec<(&'static str, VTree)>),
    NewtypeStruct(&'static str, Box<VTree>),
    TupleStruct(&'static str, Vec<VTree>),
    UnitVariant(&'static str, u32, &'static str),
    NewtypeVariant(&'static str, u32, &'static str, Box<VTree>),
}

#[derive(Debug)]
pub struct Error(pub String);
impl fmt::Display for Error {
    fn fmt(&self, f: &mut fmt::Formatter<'_>) -> fmt::Result {
        f.write_str(&self.0)
    }
}
impl std::error::Error for Error {}
impl ser::Error for Error {
    fn custom<T: fmt::Display>(msg: T) -> Self {
        Error(msg.to_string())
    }
}
impl de::Error for Error {
    fn custom<T: fmt::Display>(msg: T) -> Self {
        Error(msg.to_string())
    }
}

pub fn to_vtree<T: Serialize>(v: &T) -> Result<VTree, Error> {
    v.serialize(Ser(true))
}
/// the same data model announcing itself as not human readable (like CBOR / MessagePack / bincode-with-types)
pub fn to_vtree_compact<T: Serialize>(v: &T) -> Result<VTree, Error> {
    v.serialize(Ser(false))
}
pub fn from_vtree<'de, T: de::Deserialize<'de>>(v: &'de VTree) -> Result<T, Error> {
    T::deserialize(De(v, true))
}
pub fn from_vtree_compact<'de, T: de::Deserialize<'de>>(v: &'de VTree) -> Result<T, Error> {
    T::deserialize(De(v, false))
}

// ------------------------------------------------------------------------------------------
pub struct Ser(pub bool);

pub struct SeqSer(Vec<VTree>, u8, &'static str, bool);
pub struct StructSer(&'static str, Vec<(&'static str, VTree)>, bool);

impl ser::Serializer for Ser {
    type Ok = VTree;
    type Error = Error;
    type SerializeSeq = SeqSer;
    type SerializeTuple = SeqSer;
    type SerializeTupleStruct = SeqSer;
    type SerializeTupleVariant = ser::Impossible<VTree, Error>;
    type SerializeMap = ser::Impossible<VTree, Error>;
    type SerializeStruct = StructSer;
    type SerializeStructVariant = ser::Impossible<VTree, Error>;

    fn is_human_readable(&self) -> bool {
        self.0
    }
    fn serialize_bool(self, v: bool) -> Result<VTree, Error> {
        Ok(VTree::Bool(v))
    }
    fn serialize_i8(self, v: i8) -> Result<VTree, Error> {
        Ok(VTree::I8(v))
    }
    fn serialize_i16(self, v: i16) -> Result<VTree, Error> {
        Ok(VTree::I16(v))
    }
    fn serialize_i32(self, v: i32) -> Result<VTree, Error> {
        Ok(VTree::I32(v))
    }
    fn serialize_i64(self, v: i64) -> Result<VTree, Error> {
        Ok(VTree::I64(v))
    }
    fn serialize_u8(self, v: u8) -> Result<VTree, Error> {
        Ok(VTree::U8(v))
    }
    fn serialize_u16(self, v: u16) -> Result<VTree, Error> {
        Ok(VTree::U16(v))
    }
    fn serialize_u32(self, v: u32) -> Result<VTree, Error> {
        Ok(VTree::U32(v))
    }
    fn serialize_u64(self, v: u64) -> Result<VTree, Error> {
        Ok(VTree::U64(v))
    }
    fn serialize_f32(self, v: f32) -> Result<VTree, Error> {
        Ok(VTree::F32(v))
    }
    fn serialize_f64(self, v: f64) -> Result<VTree, Error> {
        Ok(VTree::F64(v))
    }
    fn serialize_char(self, v: char) -> Result<VTree, Error> {
        Ok(VTree::Char(v))
    }
    fn serialize_str(self, v: &str) -> Result<VTree, Error> {
        Ok(VTree::Str(v.to_string()))
    }
    fn serialize_bytes(self, v: &[u8]) -> Result<VTree, Error> {
        Ok(VTree::Bytes(v.to_vec()))
    }
    fn serialize_none(self) -> Result<VTree, Error> {
        Ok(VTree::None)
    }
    fn serialize_some<T: ?Sized + Serialize>(self, value: &T) -> Result<VTree, Error> {
        Ok(VTree::Some(Box::new(value.serialize(Ser(self.0))?)))
    }
    fn serialize_unit(self) -> Result<VTree, Error> {
        Ok(VTree::Unit)
    }
    fn serialize_unit_struct(self, _name: &'static str) -> Result<VTree, Error> {
        Ok(VTree::Unit)
    }
    fn serialize_unit_variant(self, name: &'static str, idx: u32, variant: &'static str) -> Result<VTree, Error> {
        Ok(VTree::UnitVariant(name, idx, variant))
    }
    fn serialize_newtype_struct<T: ?Sized + Serialize>(self, name: &'static str, value: &T) -> Result<VTree, Error> {
        Ok(VTree::NewtypeStruct(name, Box::new(value.serialize(Ser(self.0))?)))
    }
    fn serialize_newtype_variant<T: ?Sized + Serialize>(self, name: &'static str, idx: u32, variant: &'static str, value: &T) -> Result<VTree, Error> {
        Ok(VTree::NewtypeVariant(name, idx, variant, Box::new(value.serialize(Ser(self.0))?)))
    }
    fn serialize_seq(self, len: Option<usize>) -> Result<SeqSer, Error> {
        Ok(SeqSer(Vec::with_capacity(len.unwrap_or(0)), 0, "", self.0))
    }
    fn serialize_tuple(self, len: usize) -> Result<SeqSer, Error> {
        Ok(SeqSer(Vec::with_capacity(len), 1, "", self.0))
    }
    fn serialize_tuple_struct(self, name: &'static str, len: usize) -> Result<SeqSer, Error> {
        Ok(SeqSer(Vec::with_capacity(len), 2, name, self.0))
    }
    fn serialize_tuple_variant(self, _: &'static str, _: u32, _: &'static str, _: usize) -> Result<Self::SerializeTupleVariant, Error> {
        Err(Error("tuple variants not used by rtcm-rs".into()))
    }
    fn serialize_map(self, _len: Option<usize>) -> Result<Self::SerializeMap, Error> {
        Err(Error("maps not used by rtcm-rs".into()))
    }
    fn serialize_struct(self, name: &'static str, len: usize) -> Result<StructSer, Error> {
        Ok(StructSer(name, Vec::with_capacity(len), self.0))
    }
    fn serialize_struct_variant(self, _: &'static str, _: u32, _: &'static str, _: usize) -> Result<Self::SerializeStructVariant, Error> {
        Err(Error("struct variants not used by rtcm-rs".into()))
    }
}
impl SeqSer {
    fn finish(self) -> VTree {
        match self.1 {
            0 => VTree::Seq(self.0),
            1 => VTree::Tuple(self.0),
            _ => VTree::TupleStruct(self.2, self.0),
        }
    }
}
impl ser::SerializeSeq for SeqSer {
    type Ok = VTree;
    type Error = Error;
    fn serialize_element<T: ?Sized + Serialize>(&mut self, value: &T) -> Result<(), Error> {
        self.0.push(value.serialize(Ser(self.3))?);
        Ok(())
    }
    fn end(self) -> Result<VTree, Error> {
        Ok(self.finish())
    }
}
impl ser::SerializeTuple for SeqSer {
    type Ok = VTree;
    type Error = Error;
    fn serialize_element<T: ?Sized + Serialize>(&mut self, value: &T) -> Result<(), Error> {
        self.0.push(value.serialize(Ser(self.3))?);
        Ok(())
    }
    fn end(self) -> Result<VTree, Error> {
        Ok(self.finish())
    }
}
impl ser::SerializeTupleStruct for SeqSer {
    type Ok = VTree;
    type Error = Error;
    fn serialize_field<T: ?Sized + Serialize>(&mut self, value: &T) -> Result<(), Error> {
        self.0.push(value.serialize(Ser(self.3))?);
        Ok(())
    }
    fn end(self) -> Result<VTree, Error> {
        Ok(self.finish())
    }
}
impl ser::SerializeStruct for StructSer {
    type Ok = VTree;
    type Error = Error;
    fn serialize_field<T: ?Sized + Serialize>(&mut self, key: &'static str, value: &T) -> Result<(), Error> {
        self.1.push((key, value.serialize(Ser(self.2))?));
        Ok(())
    }
    fn end(self) -> Result<VTree, Error> {
        Ok(VTree::Struct(self.0, self.1))
    }
}

// ------------------------------------------------------------------------------------------
#[derive(Clone, Copy)]
pub struct De<'a>(pub &'a VTree, pub bool);

struct SeqDe<'a>(std::slice::Iter<'a, VTree>, bool);
impl<'de> SeqAccess<'de> for SeqDe<'de> {
    type Error = Error;
    fn next_element_seed<T: DeserializeSeed<'de>>(&mut self, seed: T) -> Result<Option<T::Value>, Error> {
        match self.0.next() {
            Some(v) => seed.deserialize(De(v, self.1)).map(Some),
            None => Ok(None),
        }
    }
    fn size_hint(&self) -> Option<usize> {
        Some(self.0.len())
    }
}
struct MapDe<'a>(std::slice::Iter<'a, (&'static str, VTree)>, Option<&'a VTree>, bool);
impl<'de> MapAccess<'de> for MapDe<'de> {
    type Error = Error;
    fn next_key_seed<K: DeserializeSeed<'de>>(&mut self, seed: K) -> Result<Option<K::Value>, Error> {
        match self.0.next() {
            Some((k, v)) => {
                self.1 = Some(v);
                seed.deserialize((*k).into_deserializer()).map(Some)
            }
            None => Ok(None),
        }
    }
    fn next_value_seed<V: DeserializeSeed<'de>>(&mut self, seed: V) -> Result<V::Value, Error> {
        seed.deserialize(De(self.1.take().ok_or_else(|| Error("value without key".into()))?, self.2))
    }
}
struct EnumDe<'a>(&'static str, Option<&'a VTree>, bool);
impl<'de> EnumAccess<'de> for EnumDe<'de> {
    type Error = Error;
    type Variant = VarDe<'de>;
    fn variant_seed<V: DeserializeSeed<'de>>(self, seed: V) -> Result<(V::Value, VarDe<'de>), Error> {
        let v = seed.deserialize(self.0.into_deserializer())?;
        Ok((v, VarDe(self.1, self.2)))
    }
}
struct VarDe<'a>(Option<&'a VTree>, bool);
impl<'de> VariantAccess<'de> for VarDe<'de> {
    type Error = Error;
    fn unit_variant(self) -> Result<(), Error> {
        match self.0 {
            None => Ok(()),
            Some(_) => Err(Error("expected unit variant".into())),
        }
    }
    fn newtype_variant_seed<T: DeserializeSeed<'de>>(self, seed: T) -> Result<T::Value, Error> {
        match self.0 {
            Some(v) => seed.deserialize(De(v, self.1)),
            None => Err(Error("expected newtype variant".into())),
        }
    }
    fn tuple_variant<V: Visitor<'de>>(self, _len: usize, _visitor: V) -> Result<V::Value, Error> {
        Err(Error("tuple variants not used".into()))
    }
    fn struct_variant<V: Visitor<'de>>(self, _fields: &'static [&'static str], _visitor: V) -> Result<V::Value, Error> {
        Err(Error("struct variants not used".into()))
    }
}

impl<'de> de::Deserializer<'de> for De<'de> {
    type Error = Error;
    fn is_human_readable(&self) -> bool {
        self.1
    }
    fn deserialize_any<V: Visitor<'de>>(self, visitor: V) -> Result<V::Value, Error> {
        let hr = self.1;
        match self.0 {
            VTree::Bool(v) => visitor.visit_bool(*v),
            VTree::U8(v) => visitor.visit_u8(*v),
            VTree::U16(v) => visitor.visit_u16(*v),
            VTree::U32(v) => visitor.visit_u32(*v),
            VTree::U64(v) => visitor.visit_u64(*v),
            VTree::I8(v) => visitor.visit_i8(*v),
            VTree::I16(v) => visitor.visit_i16(*v),
            VTree::I32(v) => visitor.visit_i32(*v),
            VTree::I64(v) => visitor.visit_i64(*v),
            VTree::F32(v) => visitor.visit_f32(*v),
            VTree::F64(v) => visitor.visit_f64(*v),
            VTree::Char(v) => visitor.visit_char(*v),
            VTree::Str(v) => visitor.visit_borrowed_str(v),
            VTree::Bytes(v) => visitor.visit_borrowed_bytes(v),
            VTree::Unit => visitor.visit_unit(),
            VTree::None => visitor.visit_none(),
            VTree::Some(v) => visitor.visit_some(De(v, hr)),
            VTree::Seq(v) | VTree::Tuple(v) | VTree::TupleStruct(_, v) => visitor.visit_seq(SeqDe(v.iter(), hr)),
            VTree::Struct(_, f) => visitor.visit_map(MapDe(f.iter(), None, hr)),
            VTree::NewtypeStruct(_, v) => visitor.visit_newtype_struct(De(v, hr)),
            VTree::UnitVariant(_, _, variant) => visitor.visit_enum(EnumDe(variant, None, hr)),
            VTree::NewtypeVariant(_, _, variant, v) => visitor.visit_enum(EnumDe(variant, Some(v), hr)),
        }
    }
    fn deserialize_option<V: Visitor<'de>>(self, visitor: V) -> Result<V::Value, Error> {
        match self.0 {
            VTree::None => visitor.visit_none(),
            VTree::Some(v) => visitor.visit_some(De(v, self.1)),
            _ => visitor.visit_some(self),
        }
    }
    fn deserialize_newtype_struct<V: Visitor<'de>>(self, _name: &'static str, visitor: V) -> Result<V::Value, Error> {
        match self.0 {
            VTree::NewtypeStruct(_, v) => visitor.visit_newtype_struct(De(v, self.1)),
            _ => visitor.visit_newtype_struct(self),
        }
    }
    fn deserialize_enum<V: Visitor<'de>>(self, _name: &'static str, _variants: &'static [&'static str], visitor: V) -> Result<V::Value, Error> {
        match self.0 {
            VTree::UnitVariant(_, _, variant) => visitor.visit_enum(EnumDe(variant, None, self.1)),
            VTree::NewtypeVariant(_, _, variant, v) => visitor.visit_enum(EnumDe(variant, Some(v), self.1)),
            _ => Err(Error("expected an enum node".into())),
        }
    }
    serde::forward_to_deserialize_any! {
        bool i8 i16 i32 i64 i128 u8 u16 u32 u64 u128 f32 f64 char str string
        bytes byte_buf unit unit_struct seq tuple
        tuple_struct map struct identifier ignored_any
    }
}

// ------------------------------------------------------------------------------------------
// paths

impl VTree {
    pub fn children(&self) -> Vec<&VTree> {
        match self {
            VTree::Some(v) | VTree::NewtypeStruct(_, v) | VTree::NewtypeVariant(_, _, _, v) => vec![v],
            VTree::Seq(v) | VTree::Tuple(v) | VTree::TupleStruct(_, v) => v.iter().collect(),
            VTree::Struct(_, f) => f.iter().map(|x| &x.1).collect(),
            _ => vec![],
        }
    }
    pub fn child_mut(&mut self, i: usize) -> Option<&mut VTree> {
        match self {
            VTree::Some(v) | VTree::NewtypeStruct(_, v) | VTree::NewtypeVariant(_, _, _, v) => {
                if i == 0 {
                    Some(v)
                } else {
                    None
                }
            }
            VTree::Seq(v) | VTree::Tuple(v) | VTree::TupleStruct(_, v) => v.get_mut(i),
            VTree::Struct(_, f) => f.get_mut(i).map(|x| &mut x.1),
            _ => None,
        }
    }
    pub fn get(&self, path: &[usize]) -> Option<&VTree> {
        let mut cur = self;
        for &i in path {
            cur = *cur.children().get(i)?;
        }
        Some(cur)
    }
    pub fn get_mut(&mut self, path: &[usize]) -> Option<&mut VTree> {
        let mut cur = self;
        for &i in path {
            cur = cur.child_mut(i)?;
        }
        Some(cur)
    }
    /// human-readable path (field names / indices)
    pub fn path_name(&self, path: &[usize]) -> String {
        let mut cur = self;
        let mut s = String::new();
        for &i in path {
            match cur {
                VTree::Struct(_, f) => {
                    s.push('.');
                    s.push_str(f[i].0);
                }
                VTree::Seq(_) => s.push_str(&format!("[{}]", i)),
                VTree::Tuple(_) | VTree::TupleStruct(_, _) => s.push_str(&format!(".{}", i)),
                VTree::NewtypeVariant(_, _, v, _) => s.push_str(v),
                _ => {}
            }
            cur = match cur.children().get(i) {
                Some(c) => c,
                None => break,
            };
        }
        s
    }
    pub fn has_nan(&self) -> bool {
        match self {
            VTree::F32(v) => v.is_nan(),
            VTree::F64(v) => v.is_nan(),
            _ => self.children().iter().any(|c| c.has_nan()),
        }
    }
    pub fn has_nonfinite(&self) -> bool {
        match self {
            VTree::F32(v) => !v.is_finite(),
            VTree::F64(v) => !v.is_finite(),
            _ => self.children().iter().any(|c| c.has_nonfinite()),
        }
    }
    /// compact JSON-ish rendering for replay files
    pub fn to_json(&self) -> serde_json::Value {
        use serde_json::json;
        match self {
            VTree::Bool(v) => json!({"bool": v}),
            VTree::U8(v) => json!({"u8": v}),
            VTree::U16(v) => json!({"u16": v}),
            VTree::U32(v) => json!({"u32": v}),
            VTree::U64(v) => json!({"u64": v}),
            VTree::I8(v) => json!({"i8": v}),
            VTree::I16(v) => json!({"i16": v}),
            VTree::I32(v) => json!({"i32": v}),
            VTree::I64(v) => json!({"i64": v}),
            VTree::F32(v) => json!({"f32_bits": v.to_bits(), "approx": format!("{:e}", v)}),
            VTree::F64(v) => json!({"f64_bits": format!("{:#x}", v.to_bits()), "approx": format!("{:e}", v)}),
            VTree::Char(v) => json!({"char": *v as u32}),
            VTree::Str(v) => json!({"str": v}),
            VTree::Bytes(v) => json!({"bytes": v}),
            VTree::Unit => json!("unit"),
            VTree::None => json!("none"),
            VTree::Some(v) => json!({"some": v.to_json()}),
            VTree::Seq(v) => json!({"seq": v.iter().map(|x| x.to_json()).collect::<Vec<_>>()}),
            VTree::Tuple(v) => json!({"tuple": v.iter().map(|x| x.to_json()).collect::<Vec<_>>()}),
            VTree::TupleStruct(n, v) => json!({"tuple_struct": n, "fields": v.iter().map(|x| x.to_json()).collect::<Vec<_>>()}),
            VTree::Struct(n, f) => json!({"struct": n, "fields": f.iter().map(|(k, v)| json!([k, v.to_json()])).collect::<Vec<_>>()}),
            VTree::NewtypeStruct(n, v) => json!({"newtype": n, "value": v.to_json()}),
            VTree::UnitVariant(n, i, v) => json!({"unit_variant": [n, i, v]}),
            VTree::NewtypeVariant(n, i, v, x) => json!({"variant": [n, i, v], "value": x.to_json()}),
        }
    }
}

//! `mcs <C01|C09|C20> [--tier quick|thorough] [--out evidence.json] [--replay file]`
//! Value-tree explorer (rtcm-rs built with the serde feature).

#[path = "../../mc-main/src/common.rs"]
#[allow(dead_code)]
mod common;
#[path = "../../mc-main/src/decode.rs"]
#[allow(dead_code)]
mod decode;
mod value;
mod vtree;

use mc_core::*;
use rtcm_rs::prelude::*;
use serde_json::json;
use value::Flags;

fn main() {
    let ctx = Ctx::from_args();
    install_panic_hook();
    watchdog_start(if ctx.tier.thorough() { 240 } else { 60 });
    if let Some(p) = &ctx.replay {
        let Ok(s) = std::fs::read_to_string(p) else {
            println!("MACHINERY-FAILURE: cannot read {}", p.display());
            std::process::exit(2);
        };
        let v: serde_json::Value = serde_json::from_str(&s).unwrap_or(json!(null));
        let a = value::replay(&v["replay"]);
        let b = value::replay(&v["replay"]);
        match (a, b) {
            (Some(a), Some(b)) if a == b => {
                println!("property: {}\nkey: {}\nwhat: {}\nobserved (identical in two runs):\n{}", v["property"], v["key"], v["what"], a);
                std::process::exit(1);
            }
            (Some(_), Some(_)) => {
                println!("MACHINERY-FAILURE: replay is not deterministic");
                std::process::exit(2);
            }
            _ => {
                println!("MACHINERY-FAILURE: replay file not understood by mcs (kind {:?})", v["replay"]["kind"]);
                std::process::exit(2);
            }
        }
    }
    let thorough = ctx.tier.thorough();
    let bound = 2;
    let (rep, meta) = match ctx.prop.as_str() {
        "C01" => {
            let mut rep = value::run_value_engine(&ctx, Flags { c01: true, c09: false, c20: false });
            rep.distinct_nontrivial = rep.traces;
            rep.sample(json!({"part":"B","number":1020,"base":"ones","level":1,"deviation":{"path":"Msg1020.xn_second_deriv_km_s2","value":"2^-26"},"oracle":"decode(build(m)) same variant; build(decode(build(m))) == build(m)"}));
            (rep, Meta {
                rule: "part B: bases = messages decoded from the zero / ones / testdata (/ counter) payloads of every supported type plus one message per distinct parse-trace shape reachable by one control-field deviation; each base is serialised to a value tree; 1 deviation = one leaf replaced by each member of its type-directed alphabet (integers: type bounds and structural constants; reals: zeros, subnormals, powers of two around the current value, +-eps neighbours, huge, +-inf, NaN; options None<->Some; strings of boundary lengths; signal identifiers as units; satellite ids incl. sibling ids) or one list restructured (empty, one, capacity-1, capacity, capacity+1, reversed, rotated, swapped, duplicated); pairs over header leaves and first/last list elements up to a cap per base (2 000 quick / 60 000 thorough); leaves of long lists are explored on 6 (quick) / 16 (thorough) elements. Every value the encoder accepts must decode to the same variant and re-encode byte-identically (equal twice-decoded messages where the statement allows). traces_validated = values accepted by the encoder and compared".into(),
                exhaustive: false,
                bounds: json!({"deviation_bound": bound, "level2_cap_per_base": if thorough {60000} else {2000}}),
                assumptions: vec!["values are built through Message: Deserialize; every public field is reachable that way".into()],
            })
        }
        "C09" => {
            let mut rep = value::run_value_engine(&ctx, Flags { c01: false, c09: true, c20: false });
            // messages without a wire form: refused for all 4096 numbers
            let mut wl: Vec<Message> = vec![Message::Empty, Message::Corrupt];
            for n in 0..4096u16 {
                wl.push(Message::MsgNotSupported(rtcm_rs::msg::message::MsgNotSupportedT { message_number: n }));
            }
            for m in &wl {
                rep.transitions += 1;
                rep.traces += 1;
                let r = catch(|| {
                    let mut b = MessageBuilder::new();
                    b.build_message(m).map(|x| x.len()).map_err(|e| format!("{:?}", e))
                });
                match r {
                    Ok(Err(_)) => rep.outcome("wire-less-variant-refused"),
                    other => rep.violation("C09", format!("wireless:{}", common::outcome_class(m)), format!("{:?}: build returned {:?} instead of an error", m, other), 0, json!({"kind":"wireless","message":format!("{:?}", m)})),
                }
            }
            rep.distinct_nontrivial = rep.states;
            rep.sample(json!({"number":1020,"base":"zero","level":1,"deviation":{"path":"Msg1020.glo_satellite_freq_chan_number","value":127},"oracle":"no panic; Ok(frame) well formed (length, preamble, reserved bits, length field, number, independent CRC-24Q)"}));
            (rep, Meta {
                rule: "every Message value the E-value exploration constructs (no acceptance filter; bases, alphabets and bounds as for C01 part B), in the build profile named in 'profile': build_message returns without panicking; every returned frame is 8..=1029 bytes, starts with D3 and six zero bits, has a length field equal to its payload size, the message's own number in the first 12 payload bits and a CRC confirmed by the bit-wise CRC-24Q; Empty, Corrupt and MsgNotSupported(n) for all 4096 n are refused. states = distinct values constructed; transitions = build calls".into(),
                exhaustive: false,
                bounds: json!({"deviation_bound": bound, "level2_cap_per_base": if thorough {60000} else {2000}}),
                assumptions: vec!["values are built through Message: Deserialize".into()],
            })
        }
        "C20" => {
            let mut rep = value::run_value_engine(&ctx, Flags { c01: false, c09: false, c20: true });
            rep.distinct_nontrivial = rep.traces;
            rep.sample(json!({"number":1007,"level":1,"deviation":{"path":"Msg1007.antenna_descriptor_str","value":"31 x U+00E9"},"oracle":"from_vtree(to_vtree(m)) == m and serde_json::from_value(to_value(m)) == m"}));
            (rep, Meta {
                rule: "every NaN-free Message value of the E-value exploration (bases decoded from frames + 1 (thorough: 2) deviations incl. strings at capacity with non-ASCII Latin-1 / multi-byte characters, lists at capacity, None/Some on every optional) is serialised to the VTree data model and back (once announcing itself as human readable, once as not), and (finite values) to serde_json::Value and back; all must give an equal message. traces_validated = round trips compared".into(),
                exhaustive: false,
                bounds: json!({"deviation_bound": bound}),
                assumptions: vec!["serde_json::Value cannot represent non-finite floats; those values are checked through the VTree model only".into()],
            })
        }
        other => {
            println!("MACHINERY-FAILURE: unknown property {:?} for mcs", other);
            std::process::exit(2);
        }
    };
    std::process::exit(finish(&ctx, &rep, meta));
}

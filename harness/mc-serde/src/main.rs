fn main(){}

//! E-value: deviation-bounded exploration of the encoder over message value trees
//! (C01 part B, C09, C20).

use crate::common::*;
use crate::decode::{bases_for, Cls, Engine, PAYLOAD_MAX};
use crate::vtree::*;
use mc_core::*;
use rtcm_rs::prelude::*;
use serde_json::json;
use std::collections::{BTreeSet, HashSet};

// ---------------------------------------------------------------------------------------------
// bases

fn decode_payload(p: &[u8]) -> Message {
    let f = make_frame(p);
    MessageFrame::new(&f).map(|fr| fr.get_message()).unwrap_or(Message::Corrupt)
}

/// typed messages with distinct parse-trace shapes reachable by one deviation of a control field
fn shape_bases(number: u16, base: &[u8], limit: usize) -> Vec<Vec<u8>> {
    let mut eng = Engine::new("none", number);
    let mut scratch = Report::new();
    let mut payload = base.to_vec();
    let x0 = eng.run(&payload, PAYLOAD_MAX, &mut scratch, &|| json!(null));
    let mut shapes: HashSet<u64> = HashSet::new();
    shapes.insert(x0.shape);
    let mut out = vec![];
    for &(o, l, c) in &x0.trace {
        if c || l == 0 || l > 64 || ((o + l) as usize) > 8 * PAYLOAD_MAX {
            continue;
        }
        let cur = get_bits(&payload, o as usize, l as usize);
        // probe: is this a control field?
        let m = if l >= 64 { u64::MAX } else { (1u64 << l) - 1 };
        let mut control = false;
        for v in [0u64, 1, m, m >> 1] {
            if v == cur {
                continue;
            }
            set_bits(&mut payload, o as usize, l as usize, v);
            let x = eng.run(&payload, PAYLOAD_MAX, &mut scratch, &|| json!(null));
            if x.shape != x0.shape {
                control = true;
            }
        }
        if control {
            // all values giving a new typed shape, then an even spread of them (first, last and in between),
            // so that large counts / long strings are represented and not only the smallest ones
            let mut cands: Vec<Vec<u8>> = vec![];
            for v in crate::decode::alphabet(l, cur, l >= 24) {
                set_bits(&mut payload, o as usize, l as usize, v);
                let x = eng.run(&payload, PAYLOAD_MAX, &mut scratch, &|| json!(null));
                if x.cls == Cls::Typed && shapes.insert(x.shape) {
                    let need = ((x.needed_bits + 7) / 8) as usize;
                    cands.push(payload[..need.min(PAYLOAD_MAX)].to_vec());
                }
            }
            let per_site = (limit / 2).max(3);
            if cands.len() <= per_site {
                out.extend(cands);
            } else {
                let n = cands.len();
                let mut idx: Vec<usize> = (0..per_site).map(|i| i * (n - 1) / (per_site - 1)).collect();
                idx.dedup();
                for i in idx {
                    out.push(cands[i].clone());
                }
            }
            if out.len() >= limit * 2 {
                set_bits(&mut payload, o as usize, l as usize, cur);
                return out;
            }
        }
        set_bits(&mut payload, o as usize, l as usize, cur);
    }
    out
}

pub fn base_messages(tier: Tier) -> Vec<(u16, String, Message)> {
    let nums: Vec<u16> = feature_numbers().into_iter().collect();
    let td = testdata_frames();
    let limit = tier.pick(6usize, 24usize);
    let parts = par_shards(nums.len(), |i| {
        let n = nums[i];
        let mut out: Vec<(u16, String, Message)> = vec![];
        let bases = bases_for(n, &td, tier.thorough());
        for (name, b) in &bases {
            let m = decode_payload(b);
            if m.number().is_some() {
                out.push((n, name.clone(), m));
            }
        }
        // shapes reachable from the zero and ones bases
        for (name, b) in bases.iter().take(2) {
            for (k, p) in shape_bases(n, b, limit).into_iter().enumerate() {
                let m = decode_payload(&p);
                if m.number().is_some() {
                    out.push((n, format!("{}+shape{}", name, k), m));
                }
            }
        }
        out
    });
    parts.into_iter().flatten().collect()
}

// ---------------------------------------------------------------------------------------------
// alphabets

fn int_alphabet(lo: i128, hi: i128) -> Vec<i128> {
    let mut s: BTreeSet<i128> = BTreeSet::new();
    for v in [lo, lo + 1, -1, 0, 1, 2, 7, 8, 15, 16, 31, 32, 63, 64, 65, 120, 121, 127, 128, 255, 256, 1991, 1992, 4095, 4096, 65535, hi - 1, hi] {
        if v >= lo && v <= hi {
            s.insert(v);
        }
    }
    s.into_iter().collect()
}

fn float_alphabet(cur: f64, is32: bool) -> Vec<f64> {
    let eps = if is32 { f32::EPSILON as f64 } else { f64::EPSILON };
    let minpos = if is32 { f32::MIN_POSITIVE as f64 } else { f64::MIN_POSITIVE };
    let max = if is32 { f32::MAX as f64 } else { f64::MAX };
    let mut v: Vec<f64> = vec![0.0, -0.0, minpos, -minpos, 1e-9, -1e-9, 0.0049, -0.0049, 0.005, -0.005, 0.5, -0.5, 1.0, -1.0, 1e9, -1e9, 1e30, -1e30, max, -max, f64::INFINITY, f64::NEG_INFINITY, f64::NAN];
    if cur != 0.0 && cur.is_finite() {
        let e = cur.abs().log2().floor();
        for k in [e, e + 1.0] {
            let p = (2.0f64).powf(k);
            for s in [1.0, -1.0] {
                v.push(s * p);
                v.push(s * p * (1.0 + eps));
                v.push(s * p * (1.0 - eps));
            }
        }
        v.push(cur * (1.0 + eps));
        v.push(cur * (1.0 - eps));
        v.push(cur * (1.0 + 1e-4));
        v.push(cur * 1.37);
        v.push(cur * 0.5);
        v.push(-cur);
        v.push(cur * 2.0);
        v.push(cur * 1024.0);
    } else {
        for k in [-30.0, -26.0, -20.0, -10.0, -4.0, 4.0, 10.0, 20.0, 30.0] {
            v.push((2.0f64).powf(k));
            v.push(-(2.0f64).powf(k));
        }
    }
    v
}

/// union of all recognised MSM descriptors + three unrecognised ones
fn sig_alphabet() -> Vec<(u8, char)> {
    let mut s: BTreeSet<(u8, char)> = BTreeSet::new();
    for t in [SIG_GPS, SIG_GLO, SIG_GAL, SIG_SBAS, SIG_QZSS, SIG_BDS, SIG_NAVIC] {
        for e in t {
            s.insert((e.1, e.2));
        }
    }
    s.insert((0, '?'));
    s.insert((9, 'Z'));
    s.insert((255, '\u{10ffff}'));
    s.into_iter().collect()
}

fn string_alphabet(cur: &str) -> Vec<String> {
    let mut v = vec![];
    for n in [0usize, 1, 7, 30, 31, 32, 127, 128, 254, 255, 256] {
        v.push(std::iter::repeat('A').take(n).collect::<String>());
        v.push(std::iter::repeat('\u{e9}').take(n).collect::<String>());
        v.push((0..n).map(|i| ['A', '\0', '\u{a4}', '\u{e9}', '\u{ff}', '\u{100}', '\u{20ac}', '\u{1f600}'][i % 8]).collect::<String>());
    }
    // Latin-1 texts whose byte values happen to form valid multi-byte UTF-8 (C3 BC, E2 82 AC, F0 9F 98 80)
    for t in ["Z\u{c3}\u{bc}rich", "\u{c3}\u{bc}", "\u{e2}\u{82}\u{ac}", "a\u{f0}\u{9f}\u{98}\u{80}b", "\u{c2}\u{a4}\u{c3}\u{a9}\u{c3}\u{bf}"] {
        v.push(t.to_string());
        v.push(std::iter::repeat(t).take(8).collect::<String>().chars().take(31).collect());
    }
    // NUL padding at either end (a decoder must not normalise what the encoder writes)
    for t in ["\0", "A\0", "AB\0\0", "\0A", "\u{e9}\0", "a b \0 "] {
        v.push(t.to_string());
    }
    v.retain(|s| s != cur);
    v.dedup();
    v
}

#[derive(Clone)]
pub struct Dev {
    pub path: Vec<usize>,
    pub node: VTree,
    pub label: String,
}

fn leaf_alternatives(node: &VTree, name: &str, siblings_sat: &[u8]) -> Vec<VTree> {
    match node {
        VTree::Bool(b) => vec![VTree::Bool(!b)],
        VTree::U8(c) => {
            let mut a = int_alphabet(0, u8::MAX as i128);
            if name == "satellite_id" {
                for s in siblings_sat {
                    a.push(*s as i128);
                }
            }
            a.sort();
            a.dedup();
            a.into_iter().filter(|v| *v != *c as i128).map(|v| VTree::U8(v as u8)).collect()
        }
        VTree::U16(c) => int_alphabet(0, u16::MAX as i128).into_iter().filter(|v| *v != *c as i128).map(|v| VTree::U16(v as u16)).collect(),
        VTree::U32(c) => int_alphabet(0, u32::MAX as i128).into_iter().filter(|v| *v != *c as i128).map(|v| VTree::U32(v as u32)).collect(),
        VTree::U64(c) => int_alphabet(0, u64::MAX as i128).into_iter().filter(|v| *v != *c as i128).map(|v| VTree::U64(v as u64)).collect(),
        VTree::I8(c) => int_alphabet(i8::MIN as i128, i8::MAX as i128).into_iter().filter(|v| *v != *c as i128).map(|v| VTree::I8(v as i8)).collect(),
        VTree::I16(c) => int_alphabet(i16::MIN as i128, i16::MAX as i128).into_iter().filter(|v| *v != *c as i128).map(|v| VTree::I16(v as i16)).collect(),
        VTree::I32(c) => int_alphabet(i32::MIN as i128, i32::MAX as i128).into_iter().filter(|v| *v != *c as i128).map(|v| VTree::I32(v as i32)).collect(),
        VTree::I64(c) => int_alphabet(i64::MIN as i128, i64::MAX as i128).into_iter().filter(|v| *v != *c as i128).map(|v| VTree::I64(v as i64)).collect(),
        VTree::F32(c) => float_alphabet(*c as f64, true).into_iter().map(|v| VTree::F32(v as f32)).filter(|v| match v { VTree::F32(x) => x.to_bits() != c.to_bits(), _ => true }).collect(),
        VTree::F64(c) => float_alphabet(*c, false).into_iter().map(VTree::F64).filter(|v| match v { VTree::F64(x) => x.to_bits() != c.to_bits(), _ => true }).collect(),
        VTree::Str(c) => string_alphabet(c).into_iter().map(VTree::Str).collect(),
        VTree::None => {
            // the inner type is not visible in the tree: offer floats and integers, the deserializer decides
            let mut v: Vec<VTree> = float_alphabet(0.0, false).into_iter().map(|x| VTree::Some(Box::new(VTree::F64(x)))).collect();
            for i in [0i64, 1, -1, 7, -7, 8, 127, -128, 255, 8191, -8192] {
                v.push(VTree::Some(Box::new(VTree::I64(i))));
            }
            v
        }
        _ => vec![],
    }
}

/// structural alternatives of a list node
fn seq_alternatives(items: &[VTree]) -> Vec<(String, Vec<VTree>)> {
    let mut out: Vec<(String, Vec<VTree>)> = vec![];
    let n = items.len();
    out.push(("len0".into(), vec![]));
    if n >= 1 {
        out.push(("len1".into(), vec![items[0].clone()]));
        if n >= 2 {
            let mut r = items.to_vec();
            r.reverse();
            out.push(("reversed".into(), r));
            let mut r = items.to_vec();
            r.rotate_left(1);
            out.push(("rotated".into(), r));
            let mut r = items.to_vec();
            r.swap(0, 1);
            out.push(("swap01".into(), r));
            out.push(("drop-last".into(), items[..n - 1].to_vec()));
        }
        let mut d = items.to_vec();
        d.push(items[n / 2].clone());
        out.push(("duplicate-one".into(), d));
        // grow by repeating the first element: capacity-1, capacity, capacity+1 are found by the caller
    }
    out
}

/// satellite ids among the direct struct children of a list's elements
fn sibling_sats(list: &VTree) -> Vec<u8> {
    let mut v = vec![];
    if let VTree::Seq(items) = list {
        for it in items {
            if let VTree::Struct(_, f) = it {
                for (k, x) in f {
                    if *k == "satellite_id" {
                        if let VTree::U8(s) = x {
                            v.push(*s);
                        }
                    }
                }
            }
        }
    }
    v.sort();
    v.dedup();
    v
}

/// how many elements of a long list are explored leaf by leaf (first ones, middle, last ones)
pub static LIST_PICKS: std::sync::atomic::AtomicUsize = std::sync::atomic::AtomicUsize::new(6);

fn pick_elems(n: usize) -> Vec<usize> {
    let k = LIST_PICKS.load(std::sync::atomic::Ordering::Relaxed);
    if n <= k {
        return (0..n).collect();
    }
    let mut v: Vec<usize> = vec![];
    let head = (k - 1) / 2;
    let tail = k - 1 - head;
    v.extend(0..head);
    v.push(n / 2);
    v.extend(n - tail..n);
    v.sort();
    v.dedup();
    v
}

/// enumerate deviation sites: (path, field name, node kind, enclosing list's satellite ids, header?)
struct Site {
    path: Vec<usize>,
    name: String,
    sats: Vec<u8>,
    in_list_depth: usize,
    elem_pos: u8, // 0 = not in list, 1 = first element, 2 = last, 3 = other explored element
}

fn collect_sites(tree: &VTree, sites: &mut Vec<Site>, lists: &mut Vec<Vec<usize>>, sigs: &mut Vec<Vec<usize>>) {
    fn rec(node: &VTree, path: &mut Vec<usize>, name: &str, sats: &[u8], depth: usize, pos: u8, sites: &mut Vec<Site>, lists: &mut Vec<Vec<usize>>, sigs: &mut Vec<Vec<usize>>) {
        match node {
            VTree::TupleStruct(n, f) if *n == "SigId" && f.len() == 2 => {
                sigs.push(path.clone());
            }
            VTree::Seq(items) => {
                lists.push(path.clone());
                let s = {
                    let mut x = sibling_sats(node);
                    for y in sats {
                        x.push(*y);
                    }
                    x.sort();
                    x.dedup();
                    x
                };
                let n = items.len();
                let pick: Vec<usize> = pick_elems(n);
                for i in pick {
                    path.push(i);
                    let p = if i == 0 { 1 } else if i == n - 1 { 2 } else { 3 };
                    rec(&items[i], path, name, &s, depth + 1, p, sites, lists, sigs);
                    path.pop();
                }
            }
            VTree::Tuple(items) => {
                // fixed-size arrays (Grid16P): first, middle, last
                let n = items.len();
                let pick: Vec<usize> = if n <= 4 { (0..n).collect() } else { vec![0, n / 2, n - 1] };
                for i in pick {
                    path.push(i);
                    rec(&items[i], path, name, sats, depth, pos, sites, lists, sigs);
                    path.pop();
                }
            }
            VTree::Struct(_, f) => {
                for (i, (k, v)) in f.iter().enumerate() {
                    path.push(i);
                    rec(v, path, k, sats, depth, pos, sites, lists, sigs);
                    path.pop();
                }
            }
            VTree::NewtypeStruct(_, v) | VTree::NewtypeVariant(_, _, _, v) => {
                path.push(0);
                rec(v, path, name, sats, depth, pos, sites, lists, sigs);
                path.pop();
            }
            VTree::Some(v) => {
                // the option itself (-> None) and the inner value
                sites.push(Site { path: path.clone(), name: format!("{}?", name), sats: sats.to_vec(), in_list_depth: depth, elem_pos: pos });
                path.push(0);
                rec(v, path, name, sats, depth, pos, sites, lists, sigs);
                path.pop();
            }
            VTree::TupleStruct(_, items) => {
                for (i, v) in items.iter().enumerate() {
                    path.push(i);
                    rec(v, path, name, sats, depth, pos, sites, lists, sigs);
                    path.pop();
                }
            }
            VTree::Unit | VTree::UnitVariant(..) | VTree::Char(_) => {}
            _ => sites.push(Site { path: path.clone(), name: name.to_string(), sats: sats.to_vec(), in_list_depth: depth, elem_pos: pos }),
        }
    }
    let mut path = vec![];
    rec(tree, &mut path, "", &[], 0, 0, sites, lists, sigs);
}

fn site_alternatives(tree: &VTree, s: &Site) -> Vec<VTree> {
    let node = tree.get(&s.path).unwrap();
    if s.name.ends_with('?') {
        return vec![VTree::None];
    }
    leaf_alternatives(node, &s.name, &s.sats)
}

/// reduced alphabet for pairs
fn boundary_alternatives(tree: &VTree, s: &Site) -> Vec<VTree> {
    let all = site_alternatives(tree, s);
    if all.len() <= 6 {
        return all;
    }
    let n = all.len();
    let idx: BTreeSet<usize> = [0, 1, n / 3, n / 2, (2 * n) / 3, n - 2, n - 1].into_iter().collect();
    idx.into_iter().map(|i| all[i].clone()).collect()
}

// ---------------------------------------------------------------------------------------------
// oracles

fn build(m: &Message) -> Result<Result<Vec<u8>, String>, PanicRec> {
    catch(|| {
        let mut b = MessageBuilder::new();
        b.build_message(m).map(|x| x.to_vec()).map_err(|e| format!("{:?}", e))
    })
}

fn has_dup_or_unrecognised_bias(m: &Message) -> bool {
    fn dup<T: Ord + Clone>(v: Vec<T>) -> bool {
        let mut s = v.clone();
        s.sort();
        s.windows(2).any(|w| w[0] == w[1])
    }
    match m {
        Message::Msg1059(t) => t.biases.iter().any(|b| !b.signal_id.is_valid()) || dup(t.biases.iter().map(|b| (b.satellite_id, b.signal_id.band(), b.signal_id.attribute())).collect()),
        Message::Msg1065(t) => t.biases.iter().any(|b| !b.signal_id.is_valid()) || dup(t.biases.iter().map(|b| (b.satellite_id, b.signal_id.band(), b.signal_id.attribute())).collect()),
        Message::Msg1230(t) => {
            t.glo_code_phase_biases.iter().any(|b| !matches!((b.signal_id.band(), b.signal_id.attribute()), (1, 'C') | (1, 'P') | (2, 'C') | (2, 'P')))
                || dup(t.glo_code_phase_biases.iter().map(|b| (b.signal_id.band(), b.signal_id.attribute())).collect())
        }
        _ => false,
    }
}

pub struct Flags {
    pub c01: bool,
    pub c09: bool,
    pub c20: bool,
}

fn well_formed(f: &[u8], number: Option<u16>) -> Option<String> {
    let n = f.len();
    if n < 8 || n > 1029 {
        return Some(format!("frame length {}", n));
    }
    if f[0] != 0xD3 {
        return Some("no preamble".into());
    }
    if f[1] & 0xFC != 0 {
        return Some("reserved bits not zero".into());
    }
    let l = (((f[1] & 3) as usize) << 8) | f[2] as usize;
    if l != n - 6 {
        return Some(format!("length field {} but payload {}", l, n - 6));
    }
    let num = ((f[3] as u16) << 4) | (f[4] as u16 >> 4);
    if Some(num) != number {
        return Some(format!("message number on the wire {} but message.number() = {:?}", num, number));
    }
    let c = crc24q(&f[..n - 3]);
    let got = ((f[n - 3] as u32) << 16) | ((f[n - 2] as u32) << 8) | f[n - 1] as u32;
    if c != got {
        return Some(format!("CRC {:06x}, independent CRC-24Q {:06x}", got, c));
    }
    None
}

pub fn evaluate(rep: &mut Report, fl: &Flags, m: &Message, tree: &VTree, used: &mut MessageBuilder, desc: &dyn Fn() -> serde_json::Value) {
    let number = m.number();
    let nn = number.unwrap_or(0);
    rep.transitions += 1;
    let replay = || json!({"kind":"value_tree","tree":tree.to_json(),"desc":desc()});
    let size = 1u64;
    // ---- C09 / C01: encode
    let r1 = build(m);
    let f1 = match r1 {
        Err(p) => {
            rep.outcome("build-panic");
            if fl.c09 {
                rep.violation_lazy("C09", format!("panic:{}:{}", p.location, nn), size, || (format!("msg {}: build_message panicked at {}: {}", nn, p.location, p.message), replay()));
            }
            None
        }
        Ok(Err(_)) => {
            rep.outcome("build-refused");
            None
        }
        Ok(Ok(f)) => {
            rep.outcome("build-ok");
            if fl.c09 {
                if let Some(w) = well_formed(&f, number) {
                    rep.violation_lazy("C09", format!("malformed:{}:{}", nn, w.chars().filter(|c| !c.is_ascii_digit() && !c.is_ascii_hexdigit()).collect::<String>()), size, || (format!("msg {}: emitted frame is not well formed: {}", nn, w), replay()));
                }
            }
            Some(f)
        }
    };
    if fl.c09 {
        rep.traces += 1;
        // the same message on a builder that has been through every earlier build of this base
        // (successful and refused ones): whatever it returns must be well formed too
        rep.transitions += 1;
        match catch(|| used.build_message(m).map(|x| x.to_vec()).map_err(|e| format!("{:?}", e))) {
            Err(p) => {
                rep.violation_lazy("C09", format!("used-builder-panic:{}:{}", p.location, nn), size, || (format!("msg {}: build_message on a used builder panicked at {}: {}", nn, p.location, p.message), replay()));
                *used = MessageBuilder::new();
            }
            Ok(Err(_)) => {}
            Ok(Ok(f)) => {
                if let Some(w) = well_formed(&f, number) {
                    rep.violation_lazy("C09", format!("used-builder-malformed:{}", w.chars().filter(|c| !c.is_ascii_digit() && !c.is_ascii_hexdigit()).collect::<String>()), size, || (format!("msg {}: frame emitted by a builder that was used before (incl. refused builds) is not well formed: {}", nn, w), replay()));
                }
            }
        }
    }
    if fl.c01 {
        if let Some(f1) = &f1 {
            rep.traces += 1;
            let r = catch(|| MessageFrame::new(f1).map(|fr| fr.get_message()).map_err(|e| format!("{:?}", e)));
            match r {
                Err(p) => rep.violation_lazy("C01", format!("decode-panic:{}:{}", p.location, nn), size, || (format!("msg {}: decoding the built frame panicked: {}", nn, p.message), replay())),
                Ok(Err(e)) => rep.violation_lazy("C01", format!("built-frame-invalid:{}", nn), size, || (format!("msg {}: built frame rejected: {}", nn, e), replay())),
                Ok(Ok(m1)) => {
                    if core::mem::discriminant(&m1) != core::mem::discriminant(m) {
                        rep.violation_lazy("C01", format!("decodes-to-{}:{}", outcome_class(&m1), nn), size, || (format!("msg {}: accepted by the encoder but the frame decodes to {}", nn, outcome_class(&m1)), replay()));
                    } else {
                        match build(&m1) {
                            Err(p) => rep.violation_lazy("C01", format!("rebuild-panic:{}:{}", p.location, nn), size, || (format!("msg {}: re-encoding the decoded message panicked: {}", nn, p.message), replay())),
                            Ok(Err(e)) => rep.violation_lazy("C01", format!("rebuild-refused:{}:{}", nn, e), size, || (format!("msg {}: decoded message is refused by the encoder: {}", nn, e), replay())),
                            Ok(Ok(f2)) => {
                                if &f2 != f1 {
                                    if !has_dup_or_unrecognised_bias(m) {
                                        let pos = f1.iter().zip(f2.iter()).position(|(a, b)| a != b).unwrap_or(f1.len().min(f2.len()));
                                        rep.violation_lazy("C01", format!("not-normal-form:{}", nn), size, || (format!("msg {}: re-encoding the decoded message gives a different frame (first difference at byte {}, lengths {} / {})", nn, pos, f1.len(), f2.len()), replay()));
                                    } else {
                                        let m2 = catch(|| MessageFrame::new(&f2).map(|fr| fr.get_message()).unwrap_or(Message::Corrupt));
                                        if m2.as_ref().ok() != Some(&m1) {
                                            rep.violation_lazy("C01", format!("twice-decoded-differ:{}", nn), size, || (format!("msg {}: (duplicate / unrecognised bias entries) twice-decoded messages differ", nn), replay()));
                                        }
                                    }
                                } else {
                                    rep.outcome("normal-form-ok");
                                }
                            }
                        }
                    }
                }
            }
        }
    }
    // ---- C20
    // whether the *message* holds NaN / non-finite floats is judged on its own serialisation
    // (a finite f64 leaf may have become inf in an f32 field)
    let own = if fl.c20 { catch(|| to_vtree(m).ok()).ok().flatten() } else { None };
    let (m_nan, m_nonfinite) = match &own {
        Some(t) => (t.has_nan(), t.has_nonfinite()),
        None => (tree.has_nan(), tree.has_nonfinite()),
    };
    if fl.c20 && !m_nan {
        rep.traces += 1;
        let r = catch(|| {
            let t = to_vtree(m).map_err(|e| format!("serialize: {}", e))?;
            let back: Message = from_vtree(&t).map_err(|e| format!("deserialize: {}", e))?;
            Ok::<bool, String>(&back == m)
        });
        match r {
            Err(p) => rep.violation_lazy("C20", format!("vtree-panic:{}:{}", p.location, nn), size, || (format!("msg {}: serde round trip panicked: {}", nn, p.message), replay())),
            Ok(Err(e)) => rep.violation_lazy("C20", format!("vtree-error:{}", nn), size, || (format!("msg {}: self-describing round trip failed: {}", nn, e), replay())),
            Ok(Ok(false)) => rep.violation_lazy("C20", format!("vtree-differs:{}", nn), size, || (format!("msg {}: message differs after serialising to the value tree and back", nn), replay())),
            Ok(Ok(true)) => rep.outcome("vtree-roundtrip-ok"),
        }
        // the same data model announcing itself as not human readable
        let r = catch(|| {
            let t = to_vtree_compact(m).map_err(|e| format!("serialize: {}", e))?;
            let back: Message = from_vtree_compact(&t).map_err(|e| format!("deserialize: {}", e))?;
            Ok::<bool, String>(&back == m)
        });
        match r {
            Err(p) => rep.violation_lazy("C20", format!("compact-panic:{}:{}", p.location, nn), size, || (format!("msg {}: serde round trip (non-human-readable model) panicked: {}", nn, p.message), replay())),
            Ok(Err(e)) => rep.violation_lazy("C20", format!("compact-error:{}", nn), size, || (format!("msg {}: round trip through a self-describing model that is not human readable failed: {}", nn, e), replay())),
            Ok(Ok(false)) => rep.violation_lazy("C20", format!("compact-differs:{}", nn), size, || (format!("msg {}: message differs after a round trip through a self-describing model that is not human readable", nn), replay())),
            Ok(Ok(true)) => rep.outcome("compact-roundtrip-ok"),
        }
        if !m_nonfinite {
            let r = catch(|| {
                let v = serde_json::to_value(m).map_err(|e| format!("to_value: {}", e))?;
                let back: Message = serde_json::from_value(v).map_err(|e| format!("from_value: {}", e))?;
                Ok::<bool, String>(&back == m)
            });
            match r {
                Err(p) => rep.violation_lazy("C20", format!("json-panic:{}:{}", p.location, nn), size, || (format!("msg {}: serde_json round trip panicked: {}", nn, p.message), replay())),
                Ok(Err(e)) => rep.violation_lazy("C20", format!("json-error:{}", nn), size, || (format!("msg {}: serde_json::Value round trip failed: {}", nn, e), replay())),
                Ok(Ok(false)) => rep.violation_lazy("C20", format!("json-differs:{}", nn), size, || (format!("msg {}: message differs after serde_json::to_value / from_value", nn), replay())),
                Ok(Ok(true)) => rep.outcome("json-roundtrip-ok"),
            }
        }
    }
}

// ---------------------------------------------------------------------------------------------
// exploration

fn try_message(tree: &VTree) -> Option<Message> {
    catch(|| from_vtree::<Message>(tree).ok()).ok().flatten()
}

/// find the capacity of the list at `path` by growing it with copies of its first element
fn list_capacity(tree: &VTree, path: &[usize]) -> Option<usize> {
    let VTree::Seq(items) = tree.get(path)? else { return None };
    if items.is_empty() {
        return None;
    }
    let fits = |n: usize| -> bool {
        let mut t = tree.clone();
        if let Some(VTree::Seq(v)) = t.get_mut(path) {
            let e = v[0].clone();
            v.resize(n, e);
        }
        try_message(&t).is_some()
    };
    let mut lo = items.len(); // fits
    let mut hi = lo.max(1) * 2;
    while hi <= 1024 && fits(hi) {
        lo = hi;
        hi *= 2;
    }
    if hi > 1024 {
        return None;
    }
    while hi - lo > 1 {
        let mid = (lo + hi) / 2;
        if fits(mid) {
            lo = mid;
        } else {
            hi = mid;
        }
    }
    Some(lo)
}

pub fn explore_base(rep: &mut Report, fl: &Flags, number: u16, base_name: &str, m0: &Message, level2_cap: u64) {
    let id = 0x0900_0000u64 + number as u64;
    watch_enter(id);
    let tree0 = match to_vtree(m0) {
        Ok(t) => t,
        Err(e) => {
            rep.violation("C20", format!("serialize-error:{}", number), format!("msg {}: serialising a decoded message failed: {}", number, e), 0, json!({"kind":"base","number":number,"base":base_name}));
            return;
        }
    };
    rep.states += 1;
    let d0 = || json!({"number":number,"base":base_name,"level":0});
    let mut used = MessageBuilder::new();
    evaluate(rep, fl, m0, &tree0, &mut used, &d0);
    let mut sites = vec![];
    let mut lists = vec![];
    let mut sigs = vec![];
    collect_sites(&tree0, &mut sites, &mut lists, &mut sigs);
    let mut n_dev = 0u64;
    let mut n_rejected = 0u64;
    let mut run = |rep: &mut Report, tree: &VTree, label: &dyn Fn() -> serde_json::Value| -> bool {
        match try_message(tree) {
            Some(m) => {
                evaluate(rep, fl, &m, tree, &mut used, label);
                true
            }
            None => false,
        }
    };
    // level 1: every leaf
    for s in &sites {
        watch_enter(id);
        let pname = tree0.path_name(&s.path);
        for alt in site_alternatives(&tree0, s) {
            let mut t = tree0.clone();
            *t.get_mut(&s.path).unwrap() = alt.clone();
            n_dev += 1;
            let altj = alt.to_json();
            if !run(rep, &t, &|| json!({"number":number,"base":base_name,"level":1,"deviations":[{"path":pname,"value":altj}]})) {
                n_rejected += 1;
            } else {
                rep.states += 1;
            }
        }
    }
    // signal identifiers as units
    let sa = sig_alphabet();
    for (k, p) in sigs.iter().enumerate() {
        if sigs.len() > 6 && k != 0 && k != sigs.len() - 1 && k != sigs.len() / 2 {
            continue;
        }
        let pname = tree0.path_name(p);
        for (b, a) in &sa {
            let mut t = tree0.clone();
            *t.get_mut(p).unwrap() = VTree::TupleStruct("SigId", vec![VTree::U8(*b), VTree::Char(*a)]);
            if t == tree0 {
                continue;
            }
            n_dev += 1;
            if run(rep, &t, &|| json!({"number":number,"base":base_name,"level":1,"deviations":[{"path":pname,"signal":[b,a.to_string()]}]})) {
                rep.states += 1;
            } else {
                n_rejected += 1;
            }
        }
    }
    // lists: structure
    for p in &lists {
        watch_enter(id);
        let pname = tree0.path_name(p);
        let VTree::Seq(items) = tree0.get(p).unwrap().clone() else { continue };
        let mut alts = seq_alternatives(&items);
        if let Some(cap) = list_capacity(&tree0, p) {
            for n in [cap.saturating_sub(1), cap, cap + 1] {
                if n >= 1 && n != items.len() {
                    let mut v = items.clone();
                    let e = items[0].clone();
                    v.resize(n, e.clone());
                    // vary the satellite id of the added elements so that they are distinct where possible
                    for (i, it) in v.iter_mut().enumerate().skip(items.len()) {
                        if let VTree::Struct(_, f) = it {
                            for (k, x) in f.iter_mut() {
                                if *k == "satellite_id" || k.ends_with("satellite_id") {
                                    if let VTree::U8(s) = x {
                                        *s = (i % 64) as u8;
                                    }
                                }
                            }
                        }
                    }
                    alts.push((format!("len{}(capacity{:+})", n, n as i64 - cap as i64), v));
                }
            }
            // every element on the same satellite (per-satellite counters), at a few lengths up to the capacity
            let has_sat = matches!(&items[0], VTree::Struct(_, f) if f.iter().any(|(k, _)| *k == "satellite_id"));
            if has_sat {
                for n in [31usize, 32, 33, 255, 256, 257, cap] {
                    if n >= 1 && n <= cap {
                        let mut v = items.clone();
                        v.resize(n, items[0].clone());
                        for it in v.iter_mut() {
                            if let VTree::Struct(_, f) = it {
                                for (k, x) in f.iter_mut() {
                                    if *k == "satellite_id" {
                                        *x = VTree::U8(1);
                                    }
                                }
                            }
                        }
                        alts.push((format!("len{}-all-on-one-satellite", n), v));
                    }
                }
            }
            rep.outcome("list-capacity-found");
        }
        for (label, v) in alts {
            let mut t = tree0.clone();
            *t.get_mut(p).unwrap() = VTree::Seq(v);
            n_dev += 1;
            if run(rep, &t, &|| json!({"number":number,"base":base_name,"level":1,"deviations":[{"path":pname,"list":label}]})) {
                rep.states += 1;
            } else {
                n_rejected += 1;
            }
        }
    }
    // every list emptied at once (e.g. an MSM message without satellites, signals and cells)
    if lists.len() > 1 {
        let mut t = tree0.clone();
        // innermost paths first so that outer replacements do not invalidate them
        let mut ps: Vec<&Vec<usize>> = lists.iter().collect();
        ps.sort_by_key(|p| std::cmp::Reverse(p.len()));
        for p in ps {
            if let Some(VTree::Seq(v)) = t.get_mut(p) {
                v.clear();
            }
        }
        n_dev += 1;
        if run(rep, &t, &|| json!({"number":number,"base":base_name,"level":1,"deviations":[{"path":"every list","list":"len0"}]})) {
            rep.states += 1;
            rep.outcome("all-lists-empty-accepted-by-deserialize");
        } else {
            n_rejected += 1;
        }
    }
    // level 2: pairs drawn from header leaves, leaves of the first and last list element, list nodes
    if level2_cap > 0 {
        let cand: Vec<&Site> = sites.iter().filter(|s| s.in_list_depth == 0 || s.elem_pos == 1 || s.elem_pos == 2).collect();
        let mut done = 0u64;
        'pairs: for (i, a) in cand.iter().enumerate() {
            watch_enter(id);
            let alts_a = boundary_alternatives(&tree0, a);
            for b in cand.iter().skip(i + 1) {
                if b.path.starts_with(&a.path) || a.path.starts_with(&b.path) {
                    continue;
                }
                let alts_b = boundary_alternatives(&tree0, b);
                for x in &alts_a {
                    for y in &alts_b {
                        if done >= level2_cap {
                            rep.add_extra_u64("bases_where_level2_cap_was_hit", 1);
                            break 'pairs;
                        }
                        let mut t = tree0.clone();
                        *t.get_mut(&a.path).unwrap() = x.clone();
                        *t.get_mut(&b.path).unwrap() = y.clone();
                        done += 1;
                        n_dev += 1;
                        let (pa, pb) = (tree0.path_name(&a.path), tree0.path_name(&b.path));
                        if run(rep, &t, &|| json!({"number":number,"base":base_name,"level":2,"deviations":[{"path":pa,"value":x.to_json()},{"path":pb,"value":y.to_json()}]})) {
                            rep.states += 1;
                        } else {
                            n_rejected += 1;
                        }
                    }
                }
            }
        }
        rep.add_extra_u64("level2_values", done);
    }
    rep.add_extra_u64("values_constructed", n_dev);
    rep.add_extra_u64("values_rejected_by_deserialize(skipped)", n_rejected);
    rep.add_extra_u64("bases", 1);
    watch_leave();
}

pub fn run_value_engine(ctx: &Ctx, fl: Flags) -> Report {
    let bases = base_messages(ctx.tier);
    let cap2: u64 = if ctx.tier.thorough() { 60_000 } else { 2_000 };
    LIST_PICKS.store(ctx.tier.pick(6, 16), std::sync::atomic::Ordering::Relaxed);
    let parts = par_shards(bases.len(), |i| {
        let mut rep = Report::new();
        let (n, name, m) = &bases[i];
        explore_base(&mut rep, &fl, *n, name, m, cap2);
        rep
    });
    let mut rep = Report::new();
    for p in parts {
        rep.merge(p);
    }
    rep.extra.insert("level2_cap_per_base".into(), json!(cap2));
    rep
}

pub fn replay(r: &serde_json::Value) -> Option<String> {
    let tree = vtree_from_json(&r["tree"])?;
    let m = try_message(&tree)?;
    let mut rep = Report::new();
    let fl = Flags { c01: true, c09: true, c20: true };
    evaluate(&mut rep, &fl, &m, &tree, &mut MessageBuilder::new(), &|| json!(null));
    let mut s = format!("message: {}\n", format!("{:?}", m).chars().take(600).collect::<String>());
    s.push_str(&format!("build: {:?}\n", build(&m).map(|r| r.map(|f| hex(&f)))));
    for ((p, _), v) in rep.viol {
        s.push_str(&format!("violation [{}]: {}\n", p, v.what));
    }
    Some(s)
}

fn leak(s: &str) -> &'static str {
    Box::leak(s.to_string().into_boxed_str())
}

pub fn vtree_from_json(j: &serde_json::Value) -> Option<VTree> {
    if let Some(s) = j.as_str() {
        return match s {
            "unit" => Some(VTree::Unit),
            "none" => Some(VTree::None),
            _ => None,
        };
    }
    let o = j.as_object()?;
    let arr = |v: &serde_json::Value| -> Option<Vec<VTree>> { v.as_array()?.iter().map(vtree_from_json).collect() };
    if let Some(v) = o.get("bool") {
        return Some(VTree::Bool(v.as_bool()?));
    }
    if let Some(v) = o.get("u8") {
        return Some(VTree::U8(v.as_u64()? as u8));
    }
    if let Some(v) = o.get("u16") {
        return Some(VTree::U16(v.as_u64()? as u16));
    }
    if let Some(v) = o.get("u32") {
        return Some(VTree::U32(v.as_u64()? as u32));
    }
    if let Some(v) = o.get("u64") {
        return Some(VTree::U64(v.as_u64()?));
    }
    if let Some(v) = o.get("i8") {
        return Some(VTree::I8(v.as_i64()? as i8));
    }
    if let Some(v) = o.get("i16") {
        return Some(VTree::I16(v.as_i64()? as i16));
    }
    if let Some(v) = o.get("i32") {
        return Some(VTree::I32(v.as_i64()? as i32));
    }
    if let Some(v) = o.get("i64") {
        return Some(VTree::I64(v.as_i64()?));
    }
    if let Some(v) = o.get("f32_bits") {
        return Some(VTree::F32(f32::from_bits(v.as_u64()? as u32)));
    }
    if let Some(v) = o.get("f64_bits") {
        return Some(VTree::F64(f64::from_bits(u64::from_str_radix(v.as_str()?.trim_start_matches("0x"), 16).ok()?)));
    }
    if let Some(v) = o.get("char") {
        return Some(VTree::Char(char::from_u32(v.as_u64()? as u32)?));
    }
    if let Some(v) = o.get("str") {
        return Some(VTree::Str(v.as_str()?.to_string()));
    }
    if let Some(v) = o.get("bytes") {
        return Some(VTree::Bytes(v.as_array()?.iter().map(|x| x.as_u64().unwrap_or(0) as u8).collect()));
    }
    if let Some(v) = o.get("some") {
        return Some(VTree::Some(Box::new(vtree_from_json(v)?)));
    }
    if let Some(v) = o.get("seq") {
        return Some(VTree::Seq(arr(v)?));
    }
    if let Some(v) = o.get("tuple") {
        return Some(VTree::Tuple(arr(v)?));
    }
    if let Some(n) = o.get("tuple_struct") {
        return Some(VTree::TupleStruct(leak(n.as_str()?), arr(o.get("fields")?)?));
    }
    if let Some(n) = o.get("struct") {
        let mut f = vec![];
        for e in o.get("fields")?.as_array()? {
            f.push((leak(e[0].as_str()?), vtree_from_json(&e[1])?));
        }
        return Some(VTree::Struct(leak(n.as_str()?), f));
    }
    if let Some(n) = o.get("newtype") {
        return Some(VTree::NewtypeStruct(leak(n.as_str()?), Box::new(vtree_from_json(o.get("value")?)?)));
    }
    if let Some(v) = o.get("unit_variant") {
        return Some(VTree::UnitVariant(leak(v[0].as_str()?), v[1].as_u64()? as u32, leak(v[2].as_str()?)));
    }
    if let Some(v) = o.get("variant") {
        return Some(VTree::NewtypeVariant(leak(v[0].as_str()?), v[1].as_u64()? as u32, leak(v[2].as_str()?), Box::new(vtree_from_json(o.get("value")?)?)));
    }
    None
}

#!/usr/bin/env python3
"""Copies confirmed sub-agent seeds from /tmp/wt/<Cxx>.out into /verif/seeded/<Cxx>-<N>/ and writes
meta.json from the confirmation log (/tmp/wt/confirm/batch*.txt) and the check log
(/tmp/wt/confirm/checks.txt).  Also prints the markdown table for DESIGN.md."""
import glob, json, os, re, shutil

CONF = {}
for f in sorted(glob.glob("/tmp/wt/confirm/batch*.txt")):
    for line in open(f):
        m = re.match(r"(C\d\d[a-z]?-\d): suite-with-patch: (\d+) passed (\d+) failed \| demo WITH patch: (.*?) \| demo WITHOUT patch: (.*)$", line.strip())
        if m:
            CONF[m.group(1)] = {"suite_passed": int(m.group(2)), "suite_failed": int(m.group(3)),
                                "demo_with_patch": m.group(4).strip(), "demo_without_patch": m.group(5).strip()}
CHK = {}
for logf in ["/tmp/wt/confirm/checks_batch12.txt", "/tmp/wt/confirm/checks.txt"]:
    cur = None
    if not os.path.exists(logf):
        continue
    for line in open(logf):
        m = re.match(r"(C\d\d[a-z]?-\d): (.*)$", line.rstrip())
        if m:
            cur = m.group(1)
            CHK.setdefault(cur, {"checks": {}, "what": []})
            found = re.findall(r"== (C\d\d) rc=(\d+) violations=(\d+)", m.group(2))
            for p, rc, nv in found:
                CHK[cur]["checks"][p] = {"rc": int(rc), "violations": int(nv)}   # later runs override earlier ones
            if found:
                CHK[cur]["what"] = []
        elif line.startswith("  what:") and cur:
            CHK[cur]["what"].append(line.strip()[6:].strip())

rows = []
for label in sorted(set(CONF) | set(CHK)):
    stem, n = label.split("-")
    prop = stem[:3]
    src = "/tmp/wt/%s.out" % stem
    c = CONF.get(label)
    k = CHK.get(label, {"checks": {}, "what": []})
    confirmed = bool(c) and c["suite_failed"] == 0 and c["suite_passed"] > 800 and ("FAILED" in c["demo_with_patch"] or ("ok." not in c["demo_with_patch"] and "error" in c["demo_with_patch"])) and "ok." in c["demo_without_patch"]
    if not os.path.exists(os.path.join(src, "patch%s.diff" % n)):
        continue
    notes = ""
    np_ = os.path.join(src, "notes%s.md" % n)
    if os.path.exists(np_):
        notes = open(np_).read()
    detected = sorted(p for p, v in k["checks"].items() if v["rc"] == 1)
    missed = sorted(p for p, v in k["checks"].items() if v["rc"] == 0)
    machinery = sorted(p for p, v in k["checks"].items() if v["rc"] not in (0, 1))
    if confirmed:
        dst = "/verif/seeded/%s" % label
        os.makedirs(dst, exist_ok=True)
        shutil.copy(os.path.join(src, "patch%s.diff" % n), os.path.join(dst, "patch.diff"))
        for ext in ("rs", "sh"):
            d = os.path.join(src, "demo%s.%s" % (n, ext))
            if os.path.exists(d):
                shutil.copy(d, os.path.join(dst, "demo." + ext))
        if notes:
            open(os.path.join(dst, "notes.md"), "w").write(notes)
        meta = {
            "id": label, "breaks_property": prop, "origin": "independent sub-agent given only the property text and a scratch worktree",
            "needs_to_manifest": " ".join(notes.split())[:900],
            "confirmed_by_me": {"existing_suite_with_patch": "%d passed, %d failed" % (c["suite_passed"], c["suite_failed"]),
                                "demo_with_patch": c["demo_with_patch"], "demo_without_patch": c["demo_without_patch"],
                                "how": "tools/confirm_seed.sh in scratch worktree /tmp/wt/own (git apply; cargo test --workspace --no-fail-fast --offline; demo as tests/zz_demo.rs with and without the patch)"},
            "checks_run_quick": k["checks"], "detected_by": detected, "not_detected_by": missed, "first_reports": k["what"][:4],
            "how_checks_were_run": "tools/try_patch.sh: git -C /repo apply patch.diff; ./check <Cxx> --tier quick; git -C /repo checkout -- .",
        }
        mp = os.path.join(dst, "meta.json")
        if os.path.exists(mp):
            try:
                old_history = json.load(open(mp)).get("history")
                if old_history:
                    meta["history"] = old_history   # hand-written note on how the checks evolved; keep it
            except Exception:
                pass
        json.dump(meta, open(mp, "w"), indent=1)
    first = (k["what"][0] if k["what"] else "")[:110].replace("|", "/")
    one = " ".join(notes.split())[:150].replace("|", "/")
    rows.append("| %s | %s | %s | %s | %s | %s |" % (label, "yes" if confirmed else "NO", ", ".join(detected) or "-", ", ".join(missed) or "-", ", ".join(machinery) or "-", one))
print("| seed | confirmed (suite passes, demo fails/passes) | detected by (quick) | run but silent | machinery | what it is |")
print("|---|---|---|---|---|---|")
print("\n".join(rows))

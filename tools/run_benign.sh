#!/bin/sh
# usage: run_benign.sh <patch> <label> : all 20 quick checks must stay silent (rc=0)
res=$(SHOW=2 /verif/tools/try_patch.sh $1 C01 C02 C03 C04 C05 C06 C07 C08 C09 C10 C11 C12 C13 C14 C15 C16 C17 C18 C19 C20 2>&1)
echo "$2: $(echo "$res" | grep '^== ' | sed 's/violations=//' | tr '\n' ' ')" >> /tmp/wt/confirm/benign.txt
echo "$res" | grep -E '^  what|MACHINERY' | head -6 | cut -c1-300 >> /tmp/wt/confirm/benign.txt

#!/bin/sh
# usage: try_patch.sh <patch.diff> <Cxx> [Cyy ...]   (env TIER=quick|thorough)
# Applies the patch to /repo's working tree, runs the named checks, reverts the tree again.
patch=$(readlink -f "$1"); shift
tier=${TIER:-quick}
cd /repo || exit 2
if ! git diff --quiet; then echo "/repo working tree is not clean"; exit 2; fi
git apply "$patch" || { echo "patch does not apply"; exit 2; }
for p in "$@"; do
  out=$(cd /verif && ./check $p --tier $tier 2>&1); rc=$?
  nv=$(echo "$out" | grep -c '^VIOLATION')
  echo "== $p rc=$rc violations=$nv"
  echo "$out" | grep -E '^  what|MACHINERY' | head -${SHOW:-3} | cut -c1-300
done
git -C /repo checkout -- . 
# files the patch created are untracked: remove them too (ignored files such as target/ stay)
git -C /repo clean -fdq
git -C /repo status --short | head -3

#!/bin/sh
# runs every own mutant against the checks expected to catch it; writes /verif/mutants/own/RESULTS.txt
cd /verif
out=/verif/mutants/own/RESULTS.txt
: > $out
python3 tools/own_mutants.py list | while read name props; do
  [ -n "${ONLY:-}" ] && [ "$name" != "$ONLY" ] && continue
  res=$(TIER=${TIER:-quick} SHOW=1 tools/try_patch.sh mutants/own/$name.diff $props 2>&1)
  line=$(echo "$res" | grep '^== ' | tr '\n' ' ')
  echo "$name: $line" >> $out
  echo "$res" | grep '^  what' | head -2 >> $out
done
echo DONE >> $out

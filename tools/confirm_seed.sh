#!/bin/sh
# usage: confirm_seed.sh <dir with patchN.diff demoN.rs|demoN.sh> <N> <label> [extra cargo args for the demo]
# Confirms in the scratch worktree /tmp/wt/own: patch applies, full suite passes with it,
# demo fails with it and passes without it.
d=$(readlink -f "$1"); n=$2; label=$3; extra=$4
wt=/tmp/wt/own
export CARGO_NET_OFFLINE=true CARGO_TARGET_DIR=/tmp/wt/own.target
cd $wt || exit 2
git checkout -q -- . ; rm -f tests/zz_demo*.rs
git apply "$d/patch$n.diff" || { echo "$label: PATCH DOES NOT APPLY"; exit 1; }
suite=$(cargo test --workspace --no-fail-fast --offline 2>&1 | grep -E "^test result" | awk '{ok+=$4; fail+=$6} END{print ok" passed "fail" failed"}')
rundemo() {
  if [ -f "$d/demo$n.sh" ]; then
    if sh "$d/demo$n.sh" $wt > /tmp/wt/confirm/demo_$label.log 2>&1; then echo "test result: ok. (demo script exit 0)"; else echo "test result: FAILED. (demo script exit $?)"; fi
  else
    cp "$d/demo$n.rs" tests/zz_demo.rs
    cargo test --offline $extra --test zz_demo 2>&1 | grep -E "^test result|error(\[|:)" | head -2 | tr '\n' ' '
    rm -f tests/zz_demo.rs
  fi
}
with=$(rundemo)
git checkout -q -- . ; rm -f tests/zz_demo*.rs
without=$(rundemo)
rm -f tests/zz_demo*.rs; git checkout -q -- .
echo "$label: suite-with-patch: $suite | demo WITH patch: $with | demo WITHOUT patch: $without"

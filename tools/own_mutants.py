#!/usr/bin/env python3
"""Own sensitivity mutants (DESIGN.md, 'Sensitivity' lines): each is a small textual edit of
/repo's source, materialised as a patch under /verif/mutants/own/<name>.diff using the scratch
worktree /tmp/wt/own.  Usage:  own_mutants.py make   |   own_mutants.py list"""
import os, subprocess, sys

WT = "/tmp/wt/own"
OUT = "/verif/mutants/own"

# name -> (properties expected to fire, [(file, old, new), ...])
# Dropped after analysis because they do NOT break the property as stated (the checks are right to
# stay silent): an `inv` literal changed consistently (still exactly one absent pattern),
# the frag_vec capacity check (unreachable: a 5-bit count cannot exceed 31), data_len = offset/8+1
# (one zero pad byte; frame still well formed and normal), clear_data from index 4 (bytes 1..3 are
# always rewritten).  See DESIGN.md section 12.
M = {
    "c03_crc_low16": (["C03", "C04"], [("src/message_frame.rs", "if msg_crc != crc24.get_crc() as u32 {", "if (msg_crc & 0xffff) != (crc24.get_crc() as u32 & 0xffff) {")]),
    "c03_len_mask": (["C03"], [("src/message_frame.rs", "((frame_data[1] as usize & 0b11) << 8)", "((frame_data[1] as usize & 0b111) << 8)")]),
    "c05_notvalid_returns": (["C05", "C06"], [("src/lib.rs", """                Err(rtcm_error::RtcmError::NotValid) => {
                    continue;
                }""", """                Err(rtcm_error::RtcmError::NotValid) => {
                    return (i + 1, None);
                }""")]),
    "c06_incomplete_consumes_all": (["C05", "C06"], [("src/lib.rs", "Err(rtcm_error::RtcmError::Incomplete) => return (i, None),", "Err(rtcm_error::RtcmError::Incomplete) => return (data.len(), None),")]),
    "c05_iter_index": (["C05"], [("src/lib.rs", "        self.index += consumed;", "        self.index = consumed;")]),
    "c07_signfix_guard": (["C07"], [("src/df/bit_value.rs", "if val & (1 << (len - 1)) == 0 || len == <$ptype>::BITS as usize {", "if val & (1 << (len - 1)) == 0 {")]),
    "c07_cursor_before_check": (["C07"], [("src/df/parser.rs", """        if self.data.len() * 8 < self.offset + len {
            Err(RtcmError::BufferOverflow)""", """        if self.data.len() * 8 < self.offset + len {
            self.offset += len;
            Err(RtcmError::BufferOverflow)""")]),
    "c11_round_neg_04": (["C11"], [("src/df/mod.rs", """                        } else {
                            -0.5
                        };""", """                        } else {
                            -0.4
                        };""")]),
    "c11_bias1059_always_plus": (["C11"], [("src/df/dfs/df_msg1059_biases.rs", "let bias = if bias > 0.0 { bias + 0.5 } else { bias - 0.5 } as i16;", "let bias = (bias + 0.5) as i16;")]),
    "c12_hasrun_after": (["C12"], [("src/msg/message.rs", """                self.has_run = true;
                let mut asm = Assembler::new(&mut self.data[3..1026], 0);
                //encode message number into message
                if let Some(number) = message.number() {""", """                let mut asm = Assembler::new(&mut self.data[3..1026], 0);
                //encode message number into message
                if let Some(number) = message.number() {"""),
                                   ("src/msg/message.rs", """                //encode data length
                let data_len = (asm.offset() - 1)/8 + 1;
                self.data[1] = (data_len >> 8) as u8;
                self.data[2] = (data_len & 0xff) as u8;
                //encode crc
                let mut crc = CRC::crc24lte_a();
                crc.digest(&self.data[..data_len+3]);
                let crc = crc.get_crc();
                self.data[data_len+3] = ((crc >> 16) & 0xff) as u8;
                self.data[data_len+4] = ((crc >> 8) & 0xff) as u8;
                self.data[data_len+5] = (crc & 0xff) as u8;

                Ok(&self.data[..data_len+6])
            }

            #[cfg(feature = "test_gen")]""", """                //encode data length
                let data_len = (asm.offset() - 1)/8 + 1;
                self.has_run = true;
                self.data[1] = (data_len >> 8) as u8;
                self.data[2] = (data_len & 0xff) as u8;
                //encode crc
                let mut crc = CRC::crc24lte_a();
                crc.digest(&self.data[..data_len+3]);
                let crc = crc.get_crc();
                self.data[data_len+3] = ((crc >> 16) & 0xff) as u8;
                self.data[data_len+4] = ((crc >> 8) & 0xff) as u8;
                self.data[data_len+5] = (crc & 0xff) as u8;

                Ok(&self.data[..data_len+6])
            }

            #[cfg(feature = "test_gen")]""")]),
    "c13_number_from_slice_len": (["C13", "C14"], [("src/message_frame.rs", "let message_number: Option<u16> = if length >= 2 {", "let message_number: Option<u16> = if frame_data.len() >= 8 {")]),
    "c15_cap_ge": (["C15", "C02"], [("src/msg/mod.rs", """                let len = par.parse::<U16>($len_bits)? as usize;
                if len > $cap_name {""", """                let len = par.parse::<U16>($len_bits)? as usize;
                if len >= $cap_name {""")]),
    "c16_no_satnum_check": (["C16", "C01"], [("src/df/dfs/df_msg1059_biases.rs", """    if sat_num > 63 {
        return Err(RtcmError::CapacityExceeded);
    }
""", "")]),
    "c17_latin1_lt_255": (["C17"], [("src/util/mod.rs", "if code > 0 && code < 256 {", "if code > 0 && code < 255 {")]),
    "c17_trypush_len_plus_1": (["C17"], [("src/util/array_string.rs", "if self.vec.len() + len > self.vec.capacity() {", "if self.vec.len() + 1 > self.vec.capacity() {")]),
    "c18_gps_2w_to_9": (["C18", "C10"], [("src/msg/msm_mappings.rs", """        9 => 2|'P',
        10 => 2|'W',
        15 => 2|'S',""", """        9 => 2|'W',
        10 => 2|'P',
        15 => 2|'S',""")]),
    "c19_drop_1133_from_cfg": (["C19"], [("src/msg/mod.rs", """    feature = "msg1132",
    feature = "msg1133"
))]
mod msm123_sat;""", """    feature = "msg1132"
))]
mod msm123_sat;""")]),
    "c20_latin1_take_n_minus_1": (["C20"], [("src/util/mod.rs", "for ch in v.chars().take(N) {", "for ch in v.chars().take(N - 1) {")]),
    "c10_no_sat_sort": (["C10", "C01"], [("src/msg/mod.rs", """                let slice = value.as_mut_slice();
                slice.sort_unstable_by(|a,b| a.satellite_id.cmp(&b.satellite_id));
""", """                let _slice = value.as_mut_slice();
""")]),
    "c10_cell_index_roles": (["C10"], [("src/msg/mod.rs", """                    let cell_indx = sat_indx[sat_id as usize - 1] * sig_mask_len
                        + sig_indx[sig_id as usize - 1];
                    let cell = 1 << (cell_cont_len - 1 - cell_indx);
                    if cell & cell_mask > 0 {""", """                    let cell_indx = sat_indx[sat_id as usize - 1]
                        + sig_indx[sig_id as usize - 1] * value.satellite_data.len();
                    let cell = 1 << (cell_cont_len - 1 - cell_indx);
                    if cell & cell_mask > 0 {""")]),
    "c02_no_cellcount_check": (["C02"], [("src/msg/mod.rs", """                if sat_len * sig_len > 64 {
                    return Err(RtcmError::InvalidSatelliteSignalCount);
                }
""", "")]),
    "c01_1230_no_sort": (["C01", "C16"], [("src/df/dfs/df_msg1230_biases.rs", "    slice.sort_unstable_by(|a, b| a.signal_id.cmp(&b.signal_id));\n", "")]),
    "c14_feature_swapped": (["C14", "C19"], [("src/msg/message.rs", '"msg1303": Msg1303(msg1303) = 1303,\n    "msg1304": Msg1304(msg1304) = 1304', '"msg1304": Msg1303(msg1303) = 1303,\n    "msg1303": Msg1304(msg1304) = 1304'),
                                              ("src/msg/mod.rs", 'include_msg!(msg1303, "msg1303");\ninclude_msg!(msg1304, "msg1304");', 'include_msg!(msg1303, "msg1304");\ninclude_msg!(msg1304, "msg1303");')]),
}


def sh(cmd, cwd=None):
    return subprocess.run(cmd, cwd=cwd, shell=True, stdout=subprocess.PIPE, stderr=subprocess.STDOUT, text=True)


def make():
    os.makedirs(OUT, exist_ok=True)
    for name, (props, edits) in M.items():
        sh("git checkout -- .", WT)
        ok = True
        for f, old, new in edits:
            p = os.path.join(WT, f)
            s = open(p).read()
            if old not in s:
                print("!! %s: pattern not found in %s" % (name, f))
                ok = False
                break
            open(p, "w").write(s.replace(old, new, 1))
        if ok:
            d = sh("git diff", WT).stdout
            open(os.path.join(OUT, name + ".diff"), "w").write(d)
            print("%-32s %s  (%d lines)" % (name, ",".join(props), len(d.splitlines())))
    sh("git checkout -- .", WT)


if __name__ == "__main__":
    if len(sys.argv) > 1 and sys.argv[1] == "make":
        make()
    else:
        for name, (props, _) in M.items():
            print(name, " ".join(props))

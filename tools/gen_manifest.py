#!/usr/bin/env python3
"""Regenerates /verif/MANIFEST.json from the table below (single source of truth)."""
import json, os, subprocess

ROOT = os.path.dirname(os.path.dirname(os.path.abspath(__file__)))

TECH = "bounded-exhaustive exploration of the real code (explicit-state / deviation-bounded model checking, reference-model oracle)"

CHECKS = {
    "C01": ("E-decode + E-value", "5 (C01)",
            "Deviation-bounded exploration on both sides: (A) every typed message the decoder produces under 0/1(/2) field deviations from 6-7 base payloads per type is re-encoded and must be a fixed point; (B) every Message value obtained from those bases by 0/1(/2) leaf deviations of its value tree, if the encoder accepts it, must decode to the same variant and re-encode byte-identically (or to an equal message where the statement allows).",
            "Complete only up to the deviation bound and the stated alphabets; values are constructed through Message: Deserialize (serde feature), encoder/decoder code is the same.",
            "deviation-bounded (iterative bounding) exhaustive exploration of decoder inputs and encoder value trees"),
    "C02": ("E-decode", "5 (C02)",
            "Every execution of the real decoder with <= 1 (quick) / <= 2 (thorough) field deviations from each base payload of each supported number, every payload length 0..=1023, plus exhaustive short byte strings, token streams and over-long buffers; both optimisation profiles (overflow checks off/on). No panic, documented outcome, self-equality, no non-finite floats.",
            "Deviation bound and alphabets as in DESIGN 4/5; choice points are the decoder's own parse calls (hook H2).",
            "deviation-bounded exhaustive exploration of the decoder's parse choice points (CHESS-style iterative bounding), two build profiles"),
    "C03": ("E-frame", "5 (C03)",
            "Complete enumeration of the stated near-miss classes for every payload length 0..=1023, compared with a literal reference predicate built on a bit-wise CRC-24Q.",
            "Payload contents limited to the listed fills; the reference CRC is validated against the catalogue check value.",
            "exhaustive enumeration of frame near-miss classes over all 1024 lengths vs. reference predicate"),
    "C04": ("E-frame", "5 (C04)",
            "Every single-bit error for every length and two fills and every testdata frame; all bit pairs for short frames (three long ones in thorough) and near/edge pairs otherwise; all bursts 2..=24 at every start with every interior for L<=3 and structured interiors otherwise; all weight-3/5 and all odd-weight patterns on the shortest frames.",
            "Not all pairs of all long frames (stated); CRC detection guarantees are checked, not assumed.",
            "exhaustive enumeration of error-pattern classes on real frames"),
    "C05": ("E-frame", "5 (C05)",
            "All byte strings over a 7-symbol alphabet (containing a complete minimal frame and 0xD2) up to length 9/10, all sequences of up to 4/5 of 20 tokens, long buffers (beyond 64 KiB), and 300 000 / 3 000 000 complete bad candidates in front of a frame scanned in a child process; scanner and iterator compared with a ten-line reference scanner plus an independent dead-byte check.",
            "Alphabet and token set as listed.",
            "exhaustive enumeration of byte strings / token streams vs. reference scanner"),
    "C06": ("E-frame BFS", "5 (C06)",
            "For each stream, explicit-state BFS over all chunkings (state = consumed, fed, delivered digest incl. the reported message number); each transition runs the real scanner under the caller protocol; terminal states must equal the one-shot scan.",
            "Streams limited to the C05 sets and testdata pairs; maximum-length frames with restricted chunk sizes.",
            "explicit-state BFS over chunk arrival schedules of the real scanner"),
    "C07": ("E-bits", "5 (C07)",
            "Complete enumeration of kind x carrier x width x offset x background, all values for w<=12/16 and boundary/one-hot values above, against a bit-vector reference; overflow accesses; both profiles.",
            "Buffer of 16 bytes; offsets 0..=23/63 and end-of-buffer alignments.",
            "exhaustive enumeration of bit-field accesses vs. bit-vector reference, two build profiles"),
    "C08": ("E-field", "5 (C08)",
            "Every bit pattern of every data field up to 24 (quick) / 32 (thorough) bits through the real decode and encode; structured pattern sets for the wider fields.",
            "Fields wider than the full width are not exhaustive (listed in the evidence); fields with token-identical parameters share one enumeration.",
            "exhaustive enumeration of field bit patterns through real decode/encode"),
    "C09": ("E-value", "5 (C09)",
            "Every Message value E-value constructs (no acceptance filter), both profiles: no panic; every returned frame checked for length, preamble, reserved bits, length field, message number and an independent CRC; wire-less variants refused for all 4096 numbers.",
            "Deviation bound and alphabets as for C01 part B.",
            "deviation-bounded exhaustive exploration of encoder inputs (value trees), two build profiles"),
    "C10": ("typed MSM enumerator", "5 (C10)",
            "All admissible (S,G,C) triples in a 3x3 (quick; 4x4 for 1074 and the MSM7 types) / 4x4 (thorough) scope for all 49 MSM types, the empty triple, boundary shapes up to 64 cells and up to 19 signals, all permutations of short lists, every invalid class (also on grids at the 64-cell limit); masks compared bit for bit with a harness-written frame, rows compared after encode/decode.",
            "Small-scope hypothesis for the general case; signal positions from the standard's tables.",
            "small-scope exhaustive enumeration of MSM inputs and caller orders"),
    "C11": ("E-field", "5 (C11)",
            "For every scaled field every cell of adjacent grid values (all cells up to 20/24 bits, range ends / zero / lattice above) with 29 inputs around the cell ends and the midpoint; thorough: every f32 input in range for f32 fields; plus a pinned reference grid (what 16 probe patterns of each field denote, harness/mc-main/df_reference.json) that the decoder must agree with.",
            "A continuum is explored through its critical points; exhaustive only for the f32 sweeps.",
            "exhaustive enumeration of quantisation cells and critical inputs (all f32 inputs in thorough)"),
    "C12": ("E-builder", "5 (C12)",
            "Explicit-state BFS over builder states reachable by build calls drawn from a ~790-message pool until the state set closes; in every state every target compared with a fresh builder; all A-B-A histories over the pool; a length ladder of several hundred previous-frame lengths x ten short targets.",
            "Pool alphabet; state observation through hook H3 for deduplication only.",
            "explicit-state BFS over MessageBuilder histories until closure"),
    "C13": ("E-frame", "5 (C13)",
            "Every payload length x listed suffix set; all attributes including the decoded message compared with the suffix-free frame.",
            "Suffix set as listed.",
            "exhaustive enumeration of frames x suffixes"),
    "C14": ("E-frame", "5 (C14)",
            "All 4096 message numbers x payload shapes; supported set observed from behaviour compared with Cargo.toml features; the deviation-bounded decode exploration of C02 with the classification oracle (a panic counts as 'neither the variant nor Corrupt'); hostile list frames.",
            "Payload shapes as listed.",
            "exhaustive enumeration of all 4096 message numbers"),
    "C15": ("list engine", "5 (C15)",
            "Every value of every count field of the 40 list/string-bearing messages x three element fills; capacity, wire count, round trip, over-capacity and truncation oracles (truncated frames also inside a longer buffer); the two 1029 counters on the wire for 2 794 texts.",
            "Capacities are those documented in the current tree.",
            "exhaustive enumeration of count-field values and truncations on harness-written frames"),
    "C16": ("bias-list enumerator", "5 (C16)",
            "All lists over 5 satellites x subsets of 3 signals in all (short) permutations, boundary scopes up to capacity, hostile frames; both profiles.",
            "Small-scope hypothesis.",
            "small-scope exhaustive enumeration of bias lists and hostile frames"),
    "C17": ("text enumerator", "5 (C17)",
            "Every Unicode scalar value alone and between two ASCII characters; all strings over a 10-character alphabet (covering every UTF-8 length, Latin-1 class and truncating-cast trap) up to length 5/6 and around the capacities; message round trips; 1029 texts around 127 characters / 255 bytes; every 2-byte text sequence and malformed UTF-8 classes in 1029 frames under several claims of the character counter.",
            "Alphabet as listed.",
            "exhaustive enumeration of strings over a small alphabet vs. reference mapping"),
    "C18": ("signal-table enumerator", "5 (C18)",
            "is_valid over the complete (band, char) domain; forward and reverse maps through the wire; cmp, partial_cmp and == on all pairs and triples of the recognised descriptors plus a grid of unrecognised ones.",
            "Reference tables typed in from the standard.",
            "exhaustive enumeration of the complete descriptor domain"),
    "C19": ("cargo driver", "5 (C19)",
            "All single-feature selections, the empty one and all_msgs: each linked without std as a #![no_std] staticlib; a driver built with std + serde against every single-feature selection decodes 4 x 4096 frames (one long and three short per message number), testdata and pattern frames and is compared with the full build; thorough: additionally cargo check of all 220 configurations with serde off and on.",
            "Host target only; no_std decided by #![no_std] builds.",
            "exhaustive enumeration of the feature-configuration space"),
    "C20": ("E-value", "5 (C20)",
            "Every NaN-free message of the E-decode / E-value exploration round-tripped through two self-describing data models.",
            "Deviation bound 1.",
            "deviation-bounded exhaustive exploration of message values through two serde data models"),
}

NOT_APPLICABLE = {
}


def main():
    commits = subprocess.check_output(["git", "-C", "/repo", "log", "--format=%h %s"]).decode().splitlines()
    hooks = [c.split()[0] for c in commits if c.split(" ", 1)[1].startswith("verif hook")]
    checks = []
    for pid in sorted(CHECKS):
        if pid in NOT_APPLICABLE:
            continue
        engine, ref, text, note, tech = CHECKS[pid]
        checks.append({
            "property_id": pid,
            "quick_cmd": "./check %s --tier quick" % pid,
            "thorough_cmd": "./check %s --tier thorough" % pid,
            "evidence_file": "/verif/evidence/%s.json" % pid,
            "replay_cmd_template": "./check %s --replay {path}" % pid,
            "engine": engine,
            "level_claimed": {"category": "model_checking", "text": text, "design_ref": "DESIGN.md section " + ref},
            "level_note": note,
            "technique": tech,
        })
    m = {
        "version": 1,
        "setup_cmd": "./check --build",
        "hooks": {
            "guard": "--cfg rtcm_rs_verif",
            "enable": "RUSTFLAGS=\"--cfg rtcm_rs_verif\" (set by ./check for every harness build; rtcm-rs is a path dependency on /repo)",
            "baseline_off_cmd": "cd /repo && cargo test --workspace --no-fail-fast --offline",
            "source_commits": list(reversed(hooks)),
            "add_only": True,
        },
        "engines": [
            {"name": "mc", "path": "harness/mc-main", "serves_properties": [p for p in sorted(CHECKS) if p not in ("C09", "C19", "C20") and p not in NOT_APPLICABLE], "kind_free_text": "bounded-exhaustive explorers over the real rtcm-rs (no serde)"},
            {"name": "mcs", "path": "harness/mc-serde", "serves_properties": [p for p in ("C01", "C09", "C20") if p not in NOT_APPLICABLE], "kind_free_text": "value-tree explorer (serde feature) for the encoder side"},
            {"name": "c19.py", "path": "c19.py", "serves_properties": [p for p in ("C19",) if p not in NOT_APPLICABLE], "kind_free_text": "feature-configuration enumerator (cargo)"},
        ],
        "checks": checks,
        "notes": "All checks decide their property by exhaustive enumeration of a bounded behaviour space of the real code (model checking in the brief's sense); bounds and alphabets are in DESIGN.md and in each evidence file. known_findings.json lists genuine defects (all repaired by fix: commits).",
        "not_applicable": [{"property_id": k, "reason": v} for k, v in sorted(NOT_APPLICABLE.items())],
    }
    with open(os.path.join(ROOT, "MANIFEST.json"), "w") as f:
        json.dump(m, f, indent=1)
    print("wrote MANIFEST.json with %d checks, %d not_applicable" % (len(checks), len(NOT_APPLICABLE)))


if __name__ == "__main__":
    main()

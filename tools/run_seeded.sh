#!/bin/sh
# usage: run_seeded.sh <dir> <N> <label> <Cxx...>  -> appends to /tmp/wt/confirm/checks.txt
d=$1; n=$2; label=$3; shift 3
res=$(SHOW=1 /verif/tools/try_patch.sh $d/patch$n.diff "$@" 2>&1)
echo "$label: $(echo "$res" | grep '^== ' | tr '\n' ' ')" >> /tmp/wt/confirm/checks.txt
echo "$res" | grep '^  what' | head -3 | cut -c1-260 >> /tmp/wt/confirm/checks.txt
